"""C16 — output bytes depend only on input bytes and options.

Process.tla draws schedules (processes x hash seeds x document orders), the driver executes them
in real subprocesses, TraceProcess.tla replays the merged event log through Process!Convert."""
import glob
import hashlib
import json
import os
import subprocess
import sys

from . import common, doc as D

HERE = os.path.dirname(os.path.abspath(__file__))


def run_proc(jobs, seedval, wd, tag):
    path = os.path.join(wd, "jobs-%s.json" % tag)
    json.dump(jobs, open(path, "w"))
    env = dict(os.environ)
    env["PYTHONPATH"] = os.path.join(common.REPO, "src")
    env["PICOSVG_VERIF"] = "1"
    if seedval == "random":
        env.pop("PYTHONHASHSEED", None)
        env["PYTHONHASHSEED"] = "random"
    else:
        env["PYTHONHASHSEED"] = str(seedval)
    p = subprocess.run([sys.executable, os.path.join(HERE, "c16_worker.py"), path], env=env,
                       stdout=subprocess.PIPE, stderr=subprocess.PIPE, text=True, timeout=1800)
    if p.returncode != 0:
        raise common.MachineryError("worker failed: " + p.stderr[-500:])
    return [json.loads(l) for l in p.stdout.splitlines() if l.strip()]


def cli_proc(svg, flags, seedval, wd, tag):
    path = os.path.join(wd, "cli-%s.svg" % tag)
    open(path, "w").write(svg)
    env = dict(os.environ)
    env["PYTHONPATH"] = os.path.join(common.REPO, "src")
    env["PYTHONHASHSEED"] = str(seedval)
    p = subprocess.run([sys.executable, "-m", "picosvg.picosvg", path] + flags, env=env,
                       stdout=subprocess.PIPE, stderr=subprocess.PIPE, text=True, timeout=600)
    if p.returncode != 0:
        return "exc:cli:" + hashlib.sha1(p.stderr.splitlines()[-1].encode()).hexdigest()[:8] if p.stderr else "exc:cli"
    return "ok:" + hashlib.sha1(p.stdout.encode()).hexdigest()[:16]


def pick_documents(wd, out, n_gen):
    docs = []
    for focus, opts in [("grad", {}), ("grad", {"ndigits": 2}), ("mixed", {"allow_text": True, "drop_unsupported": True}),
                        ("mixed", {"allow_text": True}), ("struct", {}), ("clip", {}), ("stroke", {})]:
        ds, gens = D.generate_docs(focus, n_gen * (6 if opts.get("allow_text") else 1), common.seed(), wd, max_nodes=8)
        for g in gens:
            out.add_tlc(g)
        # prefer documents that convert normally and are rich (gradients cloned, text kept, use)
        scored = []
        for d in ds:
            svg = D.concretise(d)
            if focus == "grad":
                # prefer documents whose conversion allocates several ids from one template (hook new_id)
                from picosvg import _verif
                ev = []
                _verif.install(lambda n, f: ev.append(f["template"]) if n == "new_id" else None)
                try:
                    D.convert(svg, **opts)
                finally:
                    _verif.install(None)
                multi = max([ev.count(t) for t in set(ev)] or [0])
                scored.append((multi * 10 + len(ev), svg))
                continue
            score = sum(1 for nd in d["nodes"] if nd["tag"] in ("linearGradient", "radialGradient", "use", "clipPath"))
            if opts.get("allow_text"):   # these entries exist to exercise passed-through text
                score += 100 * sum(1 for nd in d["nodes"] if nd["tag"] == "text" and nd["d"] >= 2)
                score += 50 * sum(1 for nd in d["nodes"] if nd["tag"] == "text")
            scored.append((score, svg))
        scored.sort(key=lambda t: (-t[0], t[1]))
        k = 0
        for score, svg in scored:
            if D.convert(svg, **opts)[0] == "ok" and svg not in [x[0] for x in docs]:
                docs.append((svg, opts))
                k += 1
                if k >= (2 if focus in ("grad", "mixed") else 1):
                    break
    return docs


def run(out, tier):
    wd = common.workdir("c16")
    try:
        docs = pick_documents(wd, out, 60)
        for name in ("clip-use.svg", "gradient-template-1-before.svg", "nested-svg-slovenian-flag-before.svg"):
            p = os.path.join(common.REPO, "tests", name)
            if os.path.exists(p):
                docs.append((open(p).read(), {}))
        # documents chosen for the state they could leave behind in a long-lived process
        docs.append(('<svg:svg xmlns:svg="http://www.w3.org/2000/svg" xmlns="http://www.w3.org/1999/xhtml" '
                     'viewBox="0 0 16 16"><svg:rect x="1" y="1" width="6" height="5" fill="red"/></svg:svg>', {}))
        docs.append(('<svg xmlns="http://www.w3.org/2000/svg" viewBox="0 0 16 16"><clipPath id="c" clip-rule="evenodd">'
                     '<path d="M2,2 h10 v10 h-10 z M5,5 h4 v4 h-4 z"/></clipPath>'
                     '<rect width="16" height="16" clip-path="url(#c)"/></svg>', {}))
        docs.append(('<svg xmlns="http://www.w3.org/2000/svg" viewBox="0 0 16 16"><clipPath id="c">'
                     '<path d="M2,2 h10 v10 h-10 z M5,5 h4 v4 h-4 z"/></clipPath>'
                     '<rect width="16" height="16" clip-path="url(#c)"/></svg>', {}))
        # values that are normalised per shape (a once-only initialisation would serve the first shape of
        # the process only)
        docs.append(('<svg xmlns="http://www.w3.org/2000/svg" viewBox="0 0 16 16"><rect width="5" height="5" opacity="1.7" '
                     'fill="red"/><rect x="6" width="5" height="5" fill-opacity="2.5"/><rect y="6" width="5" height="5" '
                     'stroke="blue" stroke-opacity="-1" opacity="3"/></svg>', {}))
        # attributes nobody knows on a <use>, and the same attributes on a group above passed-through text
        docs.append(('<svg xmlns="http://www.w3.org/2000/svg" xmlns:xlink="http://www.w3.org/1999/xlink" viewBox="0 0 16 16">'
                     '<defs><rect id="r" width="4" height="4"/></defs><use xlink:href="#r" font-size="12" font-family="serif" '
                     'letter-spacing="2" x="3"/><rect x="9" y="9" width="4" height="4"/></svg>', {}))
        docs.append(('<svg xmlns="http://www.w3.org/2000/svg" viewBox="0 0 16 16"><g font-size="12" font-family="serif" '
                     'letter-spacing="2"><rect width="4" height="4"/><text x="1" y="12">t</text></g></svg>', {"allow_text": True}))
        good = len(docs)
        # conversions that raise, to be interleaved
        docs.append(('<svg xmlns="http://www.w3.org/2000/svg"><filter id="f"/><rect width="2" height="2" filter="url(#f)"/></svg>', {}))
        docs.append(('<svg xmlns="http://www.w3.org/2000/svg" xmlns:xlink="http://www.w3.org/1999/xlink"><use xlink:href="#nope"/></svg>', {}))
        ndocs = len(docs)
        jobs_of = lambda seq: [{"d": d, "svg": docs[d - 1][0], "opts": docs[d - 1][1]} for d in seq]

        # schedules from the environment model
        nsched = 3 if tier == "quick" else 24
        cfg = "Process_%d.cfg" % os.getpid()
        with open(os.path.join(common.SPEC, cfg), "w") as f:
            f.write('SPECIFICATION Spec\nCONSTANTS\n  Procs = {1, 2, 3, 4}\n  Seeds = {"0", "1", "2", "random"}\n'
                    '  NDocs = %d\n  MaxPerProc = %d\nINVARIANT MemoFunctional\nCHECK_DEADLOCK FALSE\n'
                    % (ndocs, ndocs + 4))
        try:
            r = common.tlc("Process", cfg, wd, simulate=nsched, depth=4 * (ndocs + 6), workers=1,
                           seedval=common.seed() * 31 + 7, timeout=600, heap="2g")
        finally:
            os.unlink(os.path.join(common.SPEC, cfg))
        out.add_tlc(r)
        scheds = r.json_lines("CASE")[:nsched]

        plan = []   # (proc id, seed, doc sequence)
        pid = 0
        for d in range(1, ndocs + 1):      # (i) every document alone in fresh processes
            for s in ["0", "1", "2", "random"]:
                pid += 1
                plan.append((pid, s, [d]))
        # a long-lived process that converts every document twice (history: itself)
        pid += 1
        plan.append((pid, "0", list(range(1, ndocs + 1)) * 2))
        for sc in scheds:                  # (ii)+(iii) long-lived processes, orders drawn by TLC
            for s, h in zip(sc["seed"], sc["hist"]):
                pid += 1
                plan.append((pid, s, h))
        res = common.tmap(lambda t: run_proc(jobs_of(t[2]), t[1], wd, str(t[0])), plan)
        events = []
        for (p, s, seq), evs in zip(plan, res):
            events.append({"ev": "Spawn", "p": p, "seed": s})
            if len(evs) != len(seq):
                raise common.MachineryError("worker %d returned %d of %d events" % (p, len(evs), len(seq)))
            for e in evs:
                events.append({"ev": "Convert", "p": p, "d": e["d"], "key": e["d"], "out": e["out"]})
        # CLI: same document through the command line under different seeds (its own key space)
        cli = []
        for d in range(1, min(good, 4) + 1):
            for s in ("0", "5"):
                cli.append((d, s))
        cres = common.tmap(lambda t: cli_proc(docs[t[0] - 1][0], ["--allow_text"] if docs[t[0] - 1][1].get("allow_text") else [],
                                              t[1], wd, "%d-%s" % t), cli)
        for (d, s), h in zip(cli, cres):
            pid += 1
            events.append({"ev": "Spawn", "p": pid, "seed": s})
            events.append({"ev": "Convert", "p": pid, "d": d, "key": 1000 + d, "out": h})

        tcfg = "TraceProcess_%d.cfg" % os.getpid()
        with open(os.path.join(common.SPEC, tcfg), "w") as f:
            f.write('SPECIFICATION Spec\nCONSTANTS\n  Procs = {%s}\n  Seeds = {"0", "1", "2", "5", "random"}\n'
                    '  NDocs = 1000000\n  MaxPerProc = 1000000\nCHECK_DEADLOCK FALSE\n'
                    % ", ".join(str(i) for i in range(1, pid + 1)))
        try:
            verdict, st, tr = common.validate_log("TraceProcess", tcfg, events, wd)
        finally:
            os.unlink(os.path.join(common.SPEC, tcfg))
        verdicts = [verdict]
        cov = out.coverage
        cov["states"] += st
        cov["transitions"] += tr
        cov["traces_validated_against_impl"] += 1
        nconv = sum(1 for e in events if e["ev"] == "Convert")
        cov["evaluations"] += nconv
        cov["distinct_nontrivial"] = len({(e["p"], e["key"]) for e in events if e["ev"] == "Convert"
                                          and e["out"].startswith("ok")})
        cov["parts"]["processes"] = pid
        cov["parts"]["documents"] = ndocs
        cov["parts"]["schedules_from_TLC"] = len(scheds)
        cov["parts"]["verdict"] = verdicts
        cov["rule"] = ("%d documents x options (TLC-generated with shared gradient ids, text kept with "
                       "allow_text, clips, use; tests/*.svg; two that raise) each converted alone in fresh "
                       "processes under PYTHONHASHSEED 0/1/2/random, and in long-lived processes following "
                       "schedules drawn by TLC -simulate from Process.tla, plus CLI runs; non-trivial = "
                       "distinct (process, document) conversions that returned normally" % ndocs)
        cov["samples"] = [{"schedule": scheds[0] if scheds else None, "first_events": events[:6]}]
        if verdict.startswith("BAD"):
            at = int(verdict.rsplit("@", 1)[1])
            e = events[at - 1]
            first = next(x for x in events if x["ev"] == "Convert" and x["key"] == e["key"])
            seeds = {x["p"]: x["seed"] for x in events if x["ev"] == "Spawn"}
            hist = [x["d"] for x in events[:at - 1] if x["ev"] == "Convert" and x["p"] == e["p"]]
            kind = "hash-seed" if not hist and seeds[e["p"]] != seeds[first["p"]] else "history"
            out.violation("C16/output-varies/" + kind, "TLC rejected event %d: %s" % (at, verdict),
                          {"document": docs[e["d"] - 1][0], "opts": docs[e["d"] - 1][1],
                           "event": e, "first_observation": first, "seed": seeds[e["p"]],
                           "seed_first": seeds[first["p"]], "converted_before_in_same_process": hist})
    finally:
        common.cleanup(wd)


def replay(path):
    print(json.load(open(path))["witness"])
    return 0
