"""C08 — converted documents have no duplicate, dangling or orphaned references."""
from . import structural


def classify(v, svg, opt, o1, adoc, rec):
    return "C08/" + v.split(":", 1)[1]


def run(out, tier):
    structural.run_structural(
        out, "C08", tier, ("ok:refs",),
        "documents drawn by TLC from Build.tla (foci grad/mixed/stroke/struct/clip: gradients shared "
        "by transformed, untransformed, invisible and stroked shapes, id'd shapes instanced by use, "
        "nested svg, href chains; every source reference resolves by construction) plus tests/*.svg; "
        "non-trivial = the output contains at least one paint reference", classify,
        foci=["grad", "mixed", "stroke", "struct"], nq=500)


replay = structural.replay
