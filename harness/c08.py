"""C08 — converted documents have no duplicate, dangling or orphaned references."""
from . import structural


def gradient_in_anonymous_symbol(adoc):
    """a referenced gradient defined inside an id-less <symbol> (which picosvg discards wholesale)"""
    if not adoc:
        return False
    nodes = adoc["nodes"]
    refs = {a[1] for nd in nodes for a in nd["at"] if a[0] == "fillref"} | {nd.get("ref") for nd in nodes}
    stack = []
    for nd in nodes:
        while stack and stack[-1]["d"] >= nd["d"]:
            stack.pop()
        if nd["tag"] in ("linearGradient", "radialGradient") and nd.get("id") in refs and \
                any(a["tag"] == "symbol" and not a.get("id") for a in stack):
            return True
        stack.append(nd)
    return False


def classify(v, svg, opt, o1, adoc, rec):
    key = "C08/" + v.split(":", 1)[1]
    if v == "BAD:EveryUrlResolvesToDefsGradient" and gradient_in_anonymous_symbol(adoc):
        key += "/gradient-inside-anonymous-symbol"
    return key


def run(out, tier):
    structural.run_structural(
        out, "C08", tier, ("ok:refs",),
        "documents drawn by TLC from Build.tla (foci grad/mixed/stroke/struct/clip: gradients shared "
        "by transformed, untransformed, invisible and stroked shapes, id'd shapes instanced by use, "
        "nested svg, href chains; every source reference resolves by construction) plus tests/*.svg; "
        "non-trivial = the output contains at least one paint reference", classify,
        foci=["grad", "mixed", "stroke", "struct"], nq=500)


replay = structural.replay
