"""Shared driver for the rendering properties: TLC generates documents (Build.tla), the real
conversion runs on each, TLC (TraceRender.tla) compares source and output paint stacks."""
import json

from . import common, doc as D


def _one(job):
    d, opts = job
    opts = dict(opts)
    dense = opts.pop("_dense", False)
    svg = D.concretise(d)
    r = D.convert(svg, **opts)
    if r[0] == "ok":
        try:
            pr = D.project(r[1], vb=tuple(d["vb"]), dense=dense, view=tuple(d.get("view", d["vb"])))
            o = {"k": "ok", "layers": pr["layers"], "notes": pr["notes"]}
        except Exception as e:  # noqa
            o = {"k": "exc", "t": "projection:" + type(e).__name__ + ":" + str(e)[:80]}
    else:
        o = {"k": "exc", "t": r[1], "msg": r[2]}
    return {"doc": d, "out": o}, (svg, r[1] if r[0] == "ok" else r[1] + ": " + r[2])


def run_render(out, pid, focus, tier, nquick, nthorough, max_nodes=6, opts=None, wd=None,
               keep=lambda d: True, module="TraceRender", cfg="TraceRender.cfg", extra_docs=()):
    opts = opts or {}
    n = nquick if tier == "quick" else nthorough
    docs, gens = D.generate_docs(focus, n, common.seed(), wd, max_nodes=max_nodes)
    docs = list(extra_docs) + docs
    for g in gens:
        out.add_tlc(g)
    seen = set()
    uniq = []
    for d in docs:
        key = json.dumps(d, sort_keys=True)
        if key in seen or not keep(d):
            continue
        seen.add(key)
        uniq.append((d, dict(opts, _dense=(tier == "thorough"))))
    res = common.pmap(_one, uniq)
    recs = [r for r, t in res]
    texts = [t for r, t in res]
    verdicts, st, tr = common.validate_traces(module, cfg, recs, wd, chunk=4000, timeout=7200,
                                              env={"DENSE": "1" if tier == "thorough" else "0"})
    cov = out.coverage
    cov["states"] += st
    cov["transitions"] += tr
    cov["traces_validated_against_impl"] += len(recs)
    cov["evaluations"] += len(recs)
    hist = {}
    for v in verdicts:
        k = v.split("@")[0]
        if k.startswith("ok:exception"):
            k = "ok:exception"
        hist[k] = hist.get(k, 0) + 1
    cov["parts"]["verdict_histogram"] = hist
    exc = {}
    for v in verdicts:
        if v.startswith("ok:exception"):
            exc[v] = exc.get(v, 0) + 1
    cov["parts"]["exceptions"] = exc
    cov["distinct_nontrivial"] += hist.get("ok:render", 0)
    return recs, texts, verdicts


# ---------------------------------------------------------------------------------------
# classifiers for known findings: computed from the SHAPE of the witness document, so that a
# failing document that does not have the shape is still a new VIOLATION.
DEFAULTS = {"display": "inline", "fill": "black", "fill-rule": "nonzero", "fill-opacity": 0, "clip-rule": "nonzero",
            "stroke": "none", "stroke-width": 1, "stroke-opacity": 0, "stroke-linecap": "butt",
            "stroke-linejoin": "miter", "stroke-miterlimit": 4, "stroke-dasharray": [],
            "stroke-dashoffset": 0}


def _spec(at, name):
    v = None
    for n, val, via in at:
        if n == name and via == 1:
            v = ("s", val)
    if v is None:
        for n, val, via in at:
            if n == name:
                v = ("a", val)
    return None if v is None else v[1]


def _parents(doc):
    par = {}
    stack = []
    for i, nd in enumerate(doc["nodes"]):
        while stack and doc["nodes"][stack[-1]]["d"] >= nd["d"]:
            stack.pop()
        par[i] = stack[-1] if stack else None
        stack.append(i)
    return par


def _inherited(doc, par, i, name, include_self):
    j = i if include_self else par[i]
    while j is not None:
        v = _spec(doc["nodes"][j]["at"], name)
        if v is not None:
            return v
        j = par[j]
    v = _spec(doc.get("root", []), name)
    return DEFAULTS[name] if v is None else v


def use_target_value_lost(doc):
    """K1: an explicit presentation value on (a descendant of) a use target that equals the value
    inherited in its own source context, while the referencing use's context supplies another."""
    nodes = doc["nodes"]
    par = _parents(doc)
    byid = {nd["id"]: i for i, nd in enumerate(nodes) if nd.get("id")}
    for u, nd in enumerate(nodes):
        if nd["tag"] != "use" or nd.get("ref") not in byid:
            continue
        # everything the instance is made of: the target's subtree, through chains of use
        sub, todo, seen = [], [byid[nd["ref"]]], set()
        while todo:
            t = todo.pop()
            if t in seen:
                continue
            seen.add(t)
            k = t
            while k < len(nodes) and (k == t or nodes[k]["d"] > nodes[t]["d"]):
                sub.append(k)
                if nodes[k]["tag"] == "use" and nodes[k].get("ref") in byid:
                    todo.append(byid[nodes[k]["ref"]])
                k += 1
        for x in sub:
            for a in DEFAULTS:
                v = _spec(nodes[x]["at"], a)
                if v is None:
                    continue
                if v == _inherited(doc, par, x, a, False) and _inherited(doc, par, u, a, True) != v:
                    return True
    return False
