"""Generic body of the rendering checks (C02, C03, C05 ...): one focus of Build.tla each."""
from . import common, render


def run_focus(out, pid, focus, tier, nquick, nthorough, rule, classify, max_nodes=6, opts=None, extra_docs=()):
    wd = common.workdir(pid.lower())
    try:
        recs, texts, verdicts = render.run_render(out, pid, focus, tier, nquick, nthorough, wd=wd,
                                                  max_nodes=max_nodes, opts=opts, extra_docs=extra_docs)
        cov = out.coverage
        cov["rule"] = rule
        for (svg, res), v in zip(texts, verdicts):
            if v == "ok:render" and len(cov["samples"]) < 2:
                cov["samples"].append({"svg": svg, "verdict": v})
        if cov["distinct_nontrivial"] < len(recs) // 4:
            raise common.MachineryError("vacuous run: %r" % cov["parts"])
        for rec, (svg, res), v in zip(recs, texts, verdicts):
            if v.startswith("BAD"):
                out.violation(classify(rec, v), "TLC rejected trace: " + v,
                              {"svg": svg, "output": res, "verdict": v})
    finally:
        common.cleanup(wd)


def replay(path):
    import json
    from . import doc as D
    w = json.load(open(path))["witness"]
    print(w["svg"])
    print(D.convert(w["svg"]))
    return 0
