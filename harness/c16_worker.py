"""Worker process for C16: converts the given documents in order, prints one event per line."""
import hashlib
import json
import sys


def main():
    jobs = json.load(open(sys.argv[1]))
    from picosvg.svg import SVG

    for j in jobs:
        try:
            out = SVG.fromstring(j["svg"]).topicosvg(**j["opts"]).tostring()
            h = "ok:" + hashlib.sha1(out.encode("utf-8")).hexdigest()[:16]
        except Exception as e:  # noqa
            h = "exc:" + type(e).__name__ + ":" + hashlib.sha1(str(e).encode()).hexdigest()[:8]
        print(json.dumps({"d": j["d"], "out": h}))
        sys.stdout.flush()


if __name__ == "__main__":
    main()
