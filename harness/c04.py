"""C04 — strokes are rendered into equivalent filled outlines drawn above the fill
(spec/StrokeSem.tla, spec/TraceStroke.tla)."""
from . import common, render


def classify(rec, v):
    if render.use_target_value_lost(rec["doc"]):
        return "C04/use-target-explicit-inherited-value-lost"
    return "C04/" + v.split(":", 1)[1].split("@")[0]


def run(out, tier):
    wd = common.workdir("c04")
    try:
        recs, texts, verdicts = render.run_render(out, "C04", "stroke", tier, 420, 1500, wd=wd, max_nodes=5,
                                                  module="TraceStroke", cfg="TraceStroke.cfg")
        cov = out.coverage
        cov["distinct_nontrivial"] = cov["parts"]["verdict_histogram"].get("ok:stroke", 0)
        cov["rule"] = ("documents drawn by TLC -simulate from Build.tla (Focus=stroke: stroke, stroke-width 1/2/4, "
                       "linecap butt/round/square, linejoin miter/round/bevel, miterlimit 1/4/10, dash arrays of odd "
                       "and even length, dash offsets incl. negative, stroke-opacity, own or inherited from groups, "
                       "as attribute or style, under catalogue transforms incl. non-uniform scaling); non-trivial = "
                       "a stroke layer is painted, the document is in the property's scope and TLC compared stacks "
                       "at every sample point where all source layers are decided (in / out, not band)")
        for (svg, res), v in zip(texts, verdicts):
            if v == "ok:stroke" and len(cov["samples"]) < 2:
                cov["samples"].append({"svg": svg, "verdict": v})
        if cov["distinct_nontrivial"] < len(recs) // 5:
            raise common.MachineryError("vacuous run: %r" % cov["parts"])
        for rec, (svg, res), v in zip(recs, texts, verdicts):
            if v.startswith("BAD"):
                out.violation(classify(rec, v), "TLC rejected trace: " + v,
                              {"svg": svg, "output": res, "verdict": v})
    finally:
        common.cleanup(wd)


def replay(path):
    import json
    print(json.load(open(path))["witness"]["svg"])
    return 0
