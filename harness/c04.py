"""C04 — strokes are rendered into equivalent filled outlines drawn above the fill
(spec/StrokeSem.tla, spec/TraceStroke.tla)."""
from . import common, render


def simplify_changes_stroke(adoc):
    """asked of the engine, through the guarded hook in svg_pathops.stroke(): did Skia's Simplify change the
    region covered by the outline the stroker produced?  (It must not: simplification is supposed to
    remove overlaps only.)  Compared on a 1/8 grid; a gross difference only (flattening noise is a
    handful of points along edges)."""
    from picosvg import _verif
    from . import doc as D
    pairs = []

    def sink(name, f):
        if name == "stroke_simplified":
            pairs.append((f["raw"], f["result"]))

    _verif.install(sink)
    try:
        D.convert(D.concretise(adoc))
    finally:
        _verif.install(None)

    def polys(cmds):
        return D.flatten(" ".join(c + " ".join(repr(float(a)) for a in args) for c, args in cmds))

    def wind(pts, x, y):
        w = 0
        for (x0, y0), (x1, y1) in zip(pts, pts[1:] + pts[:1]):
            if (y0 <= y) != (y1 <= y) and x0 + (y - y0) / (y1 - y0) * (x1 - x0) > x:
                w += 1 if y1 > y0 else -1
        return w

    for raw, res in pairs:
        try:
            pr, ps = polys(raw), polys(res)
        except Exception:  # noqa
            continue
        xs = [p[0] for pl in pr + ps for p in pl]
        ys = [p[1] for pl in pr + ps for p in pl]
        if not xs:
            continue
        ext = max(max(xs) - min(xs), max(ys) - min(ys))
        if ext < 2:
            # outlines in small user units (magnified by an outer transform): the same question on a grid
            # relative to the outline's own extent
            n = 120
            bx, by, st = min(xs), min(ys), ext / n
            tot = diff = 0
            for i in range(-2, n + 3):
                for j in range(-2, n + 3):
                    x, y = bx + (i + 0.31) * st, by + (j + 0.77) * st
                    a = sum(wind(pl, x, y) for pl in pr) != 0
                    b = sum(wind(pl, x, y) for pl in ps) != 0
                    tot += a or b
                    diff += a != b
            if tot and diff * 20 > tot:      # more than 5% of the covered points change
                return "small"
            continue
        x0, x1, y0, y1 = int(min(xs)) - 1, int(max(xs)) + 2, int(min(ys)) - 1, int(max(ys)) + 2
        if (x1 - x0) * (y1 - y0) > 4000:
            continue
        diff = 0
        for i in range(x0 * 8, x1 * 8):
            for j in range(y0 * 8, y1 * 8):
                x, y = i / 8 + 0.031, j / 8 + 0.077
                if (sum(wind(pl, x, y) for pl in pr) != 0) != (sum(wind(pl, x, y) for pl in ps) != 0):
                    diff += 1
        if diff > 60:
            return True
    return False


def classify(rec, v):
    if render.use_target_value_lost(rec["doc"]):
        return "C04/use-target-explicit-inherited-value-lost"
    sc = simplify_changes_stroke(rec["doc"])
    if sc == "small":
        return "C04/engine-silently-wrong/simplify-collapses-outlines-in-small-units"
    if sc:
        return "C04/engine-silently-wrong/simplify-changes-the-stroke-outline"
    return "C04/" + v.split(":", 1)[1].split("@")[0]


def sharp_corner_family():
    """a corner of about 16 degrees (miter ratio 7.07): mitered only when the miterlimit in force is at
    least that - the default is 4, so without any stroke-miterlimit the join is bevelled"""
    docs = []
    # (the last one: an OPEN polyline that ends where it started, at the sharp corner - two caps there, no join)
    for tag, g in (("polygon", [15, 6, 3, 8, 15, 10]), ("polyline", [15, 6, 3, 8, 15, 10]),
                   ("polyline", [3, 8, 15, 6, 15, 10, 3, 8])):
        for w in (1, 2):
            for ml in (None, 4, 10, 1):
                for where in ("own", "group"):
                    for fill in ("none", "blue"):
                        st = [["stroke", "red", 0], ["stroke-width", w, 0]] + ([["stroke-miterlimit", ml, 0]] if ml else [])
                        shape = {"d": 1, "tag": tag, "id": "", "g": g, "ref": "", "at": [["fill", fill, 0]]}
                        if where == "own":
                            shape["at"] += st
                            nodes = [shape]
                        else:
                            shape["d"] = 2
                            nodes = [{"d": 1, "tag": "g", "id": "", "at": st, "g": [], "ref": ""}, shape]
                        docs.append({"vb": [0, 0, 16, 16], "view": [0, 0, 16, 16], "root": [], "nodes": nodes})
    # an instance with opacity whose target is stroked only through what it INHERITS at the instance (from
    # the use element or a group around it): fill and stroke pieces are composited as one group
    for stroke_on in ("use", "group-around-use", "target"):
        for e in (1, 2):
            tgt = {"d": 2, "tag": "rect", "id": "t", "g": [3, 3, 8, 7, -1, -1], "ref": "", "at": [["fill", "blue", 0]]}
            st = [["stroke", "red", 0], ["stroke-width", 2, 0]]
            use = {"d": 1, "tag": "use", "id": "", "g": [1, 1], "ref": "t", "at": [["opacity", e, 0]]}
            nodes = [{"d": 1, "tag": "defs", "id": "", "at": [], "g": [], "ref": ""}, tgt]
            if stroke_on == "target":
                tgt["at"] += st
                nodes.append(use)
            elif stroke_on == "use":
                use["at"] += st
                nodes.append(use)
            else:
                use["d"] = 2
                nodes += [{"d": 1, "tag": "g", "id": "", "at": st, "g": [], "ref": ""}, use]
            docs.append({"vb": [0, 0, 16, 16], "view": [0, 0, 16, 16], "root": [], "nodes": nodes})
    return docs


def micro_family():
    """hairline strokes under magnification: the content is written in units 64 / 128 / 256 times
    smaller inside one scale(k) group (doc.concretise "micro"), so stroke-widths are 0.004 .. 0.03 user
    units - below the conversion's curve tolerance (0.016 for a 16-unit viewBox) - yet 1 or 2 units
    wide once magnified.  The TLA+ semantics judges the equivalent unscaled document."""
    docs = []
    shapes = (("rect", [3, 3, 8, 7, -1, -1]), ("polygon", [3, 3, 12, 3, 12, 11]),
              ("polyline", [2, 13, 14, 13, 14, 3]), ("line", [2, 8, 14, 8]))
    for k in (64, 128, 256):
        for tag, g in shapes:
            for w in (1, 2):
                for extra in ([], [["stroke-linecap", "square", 0]], [["stroke-linejoin", "bevel", 0]],
                              [["stroke-dasharray", [3, 2], 0]], [["stroke-opacity", 1, 0]]):
                    for where in ("own", "group"):
                        st = [["stroke", "red", 0], ["stroke-width", w, 1 if where == "own" and w == 2 else 0]] + extra
                        shape = {"d": 1, "tag": tag, "id": "", "g": g, "ref": "",
                                 "at": [["fill", "blue" if tag in ("rect", "polygon") else "none", 0]]}
                        if where == "own":
                            shape["at"] += st
                            nodes = [shape]
                        else:
                            shape["d"] = 2
                            nodes = [{"d": 1, "tag": "g", "id": "", "at": st, "g": [], "ref": ""}, shape]
                        docs.append({"vb": [0, 0, 16, 16], "view": [0, 0, 16, 16], "root": [], "micro": k,
                                     "nodes": nodes})
    return docs


def run(out, tier):
    wd = common.workdir("c04")
    try:
        recs, texts, verdicts = render.run_render(out, "C04", "stroke", tier, 420, 1500, wd=wd, max_nodes=5,
                                                  module="TraceStroke", cfg="TraceStroke.cfg",
                                                  extra_docs=sharp_corner_family() + micro_family())
        cov = out.coverage
        cov["distinct_nontrivial"] = cov["parts"]["verdict_histogram"].get("ok:stroke", 0)
        cov["rule"] = ("documents drawn by TLC -simulate from Build.tla (Focus=stroke: stroke, stroke-width 1/2/4, "
                       "linecap butt/round/square, linejoin miter/round/bevel, miterlimit 1/4/10, dash arrays of odd "
                       "and even length, dash offsets incl. negative, stroke-opacity, own or inherited from groups, "
                       "as attribute or style, under catalogue transforms incl. non-uniform scaling; plus a sharp-corner family, "
                       "an instance-opacity family and a hairline family: widths below the curve tolerance inside "
                       "scale(64/128/256), written by the concretiser's micro mode); non-trivial = "
                       "a stroke layer is painted, the document is in the property's scope and TLC compared stacks "
                       "at every sample point where all source layers are decided (in / out, not band)")
        for (svg, res), v in zip(texts, verdicts):
            if v == "ok:stroke" and len(cov["samples"]) < 2:
                cov["samples"].append({"svg": svg, "verdict": v})
        if cov["distinct_nontrivial"] < len(recs) // 5:
            raise common.MachineryError("vacuous run: %r" % cov["parts"])
        for rec, (svg, res), v in zip(recs, texts, verdicts):
            if v.startswith("BAD"):
                out.violation(classify(rec, v), "TLC rejected trace: " + v,
                              {"svg": svg, "output": res, "verdict": v})
    finally:
        common.cleanup(wd)


def replay(path):
    import json
    print(json.load(open(path))["witness"]["svg"])
    return 0
