"""C06 — rewritten gradients assign the same colour to every point of their shapes
(spec/GradSem.tla, spec/TraceGrad.tla)."""
from . import common, render


def no_stroke_no_clip(d):
    for nd in d["nodes"]:
        for a in nd["at"]:
            if a[0].startswith("stroke") or a[0] == "clip-path":
                return False
    return True


def classify(rec, v):
    if render.use_target_value_lost(rec["doc"]):
        return "C06/use-target-explicit-inherited-value-lost"
    return "C06/" + v.split(":", 1)[1].split("@")[0]


def run(out, tier):
    wd = common.workdir("c06")
    try:
        recs, texts, verdicts = render.run_render(out, "C06", "grad", tier, 1600, 12000, wd=wd, max_nodes=7,
                                                  keep=no_stroke_no_clip, module="TraceGrad", cfg="TraceGrad.cfg")
        cov = out.coverage
        cov["distinct_nontrivial"] = cov["parts"]["verdict_histogram"].get("ok:gradient", 0)
        cov["rule"] = ("documents drawn by TLC -simulate from Build.tla (Focus=grad: linear and radial gradients "
                       "with numbers or percentages, both gradientUnits, gradientTransform lists, 3 spreadMethods, "
                       "href chains contributing attributes and/or stops, shared by transformed / untransformed / "
                       "instanced / invisible shapes; unstroked, unclipped as the scope says); non-trivial = a "
                       "gradient-filled layer is painted and TLC compared paint stacks and the gradient parameter "
                       "on the sample lattice")
        for (svg, res), v in zip(texts, verdicts):
            if v == "ok:gradient" and len(cov["samples"]) < 2:
                cov["samples"].append({"svg": svg, "verdict": v})
        if cov["distinct_nontrivial"] < len(recs) // 5:
            raise common.MachineryError("vacuous run: %r" % cov["parts"])
        for rec, (svg, res), v in zip(recs, texts, verdicts):
            if v.startswith("BAD"):
                out.violation(classify(rec, v), "TLC rejected trace: " + v,
                              {"svg": svg, "output": res, "verdict": v})
    finally:
        common.cleanup(wd)


def replay(path):
    import json
    print(json.load(open(path))["witness"]["svg"])
    return 0
