"""C06 — rewritten gradients assign the same colour to every point of their shapes
(spec/GradSem.tla, spec/TraceGrad.tla)."""
from . import common, render


def no_stroke_no_clip(d):
    for nd in d["nodes"]:
        for a in nd["at"]:
            if a[0].startswith("stroke") or a[0] == "clip-path":
                return False
    return True


def classify(rec, v):
    if render.use_target_value_lost(rec["doc"]):
        return "C06/use-target-explicit-inherited-value-lost"
    return "C06/" + v.split(":", 1)[1].split("@")[0]


def template_family():
    """exhaustive small family: a gradient that inherits from an href template, for every relative
    placement of the two (before / after / nested deeper), kind, inherited transform and target transform"""
    docs = []
    stops = [[0, "red"], [100, "blue"]]
    for kind in ("linearGradient", "radialGradient"):
        for gt in ([["translate", 3, 1]], [["translate", -2, 2], ["scale", 2, 1, 1]], [["scale", 1, 1, 2]]):
            for placement in ("before", "after", "template-deeper", "user-deeper"):
                for shape_tf in ([], [["translate", 0, 4]]):
                    if kind == "linearGradient":
                        tat = [["gradientUnits", "userSpaceOnUse", 0], ["x1", [2, 1, 0], 0], ["y1", [3, 1, 0], 0],
                               ["x2", [12, 1, 0], 0], ["y2", [9, 1, 0], 0], ["gradientTransform", gt, 0]]
                        dat = [["x1", [4, 1, 0], 0], ["y2", [3, 1, 0], 0]]
                    else:
                        tat = [["gradientUnits", "userSpaceOnUse", 0], ["cx", [8, 1, 0], 0], ["cy", [7, 1, 0], 0],
                               ["r", [6, 1, 0], 0], ["gradientTransform", gt, 0]]
                        dat = [["cx", [6, 1, 0], 0]]
                    T = {"d": 1, "tag": kind, "id": "t", "at": tat, "g": stops, "ref": ""}
                    U = {"d": 1, "tag": kind, "id": "u", "at": dat, "g": [], "ref": "t"}
                    G = {"d": 1, "tag": "g", "id": "", "at": [], "g": [], "ref": ""}
                    if placement == "before":
                        head = [T, U]
                    elif placement == "after":
                        head = [U, T]
                    elif placement == "template-deeper":
                        head = [G, dict(T, d=2), U]
                    else:
                        head = [T, G, dict(U, d=2)]
                    rect = {"d": 1, "tag": "rect", "id": "", "g": [2, 2, 11, 9, -1, -1], "ref": "",
                            "at": [["fill", "url(#u)", 0], ["fillref", "u", 0]] +
                                  ([["transform", shape_tf, 0]] if shape_tf else [])}
                    docs.append({"vb": [0, 0, 16, 16], "view": [0, 0, 16, 16], "root": [], "nodes": head + [rect]})
    # chains of three: a -> b -> c, where geometry / units / transform / stops come from different links,
    # in every document order of the three gradients
    import itertools
    geo = [["gradientUnits", "userSpaceOnUse", 0], ["x1", [2, 1, 0], 0], ["y1", [3, 1, 0], 0], ["x2", [12, 1, 0], 0],
           ["y2", [9, 1, 0], 0], ["gradientTransform", [["translate", 3, 1]], 0], ["spreadMethod", "reflect", 0]]
    for stops_at in ("b", "c", "bc"):
        for own in ([], [["x1", [4, 1, 0], 0]]):
            A = {"d": 1, "tag": "linearGradient", "id": "a", "at": list(own), "g": [], "ref": "b"}
            B = {"d": 1, "tag": "linearGradient", "id": "b", "at": [["y2", [5, 1, 0], 0]],
                 "g": stops if "b" in stops_at else [], "ref": "c"}
            C = {"d": 1, "tag": "linearGradient", "id": "c", "at": list(geo),
                 "g": [[0, "lime"], [100, "black"]] if "c" in stops_at else [], "ref": ""}
            for order in itertools.permutations([A, B, C]):
                for shape_tf in ([], [["translate", 0, 4]]):
                    rect = {"d": 1, "tag": "rect", "id": "", "g": [2, 2, 11, 9, -1, -1], "ref": "",
                            "at": [["fill", "url(#a)", 0], ["fillref", "a", 0]] +
                                  ([["transform", shape_tf, 0]] if shape_tf else [])}
                    docs.append({"vb": [0, 0, 16, 16], "view": [0, 0, 16, 16], "root": [],
                                 "nodes": [dict(x) for x in order] + [rect]})
    # a short gradient vector in bounding-box units, shifted by 1/64 of the box (smaller than the document's
    # size-relative tolerance, larger than what rounds to zero): moves every colour by 8 % of the ramp
    for tq in ([64, 0, 0, 64, 1, 0, 64], [64, 0, 0, 64, 0, 1, 64], [64, 0, 0, 64, -1, 1, 64]):
        for vec in (([2, 5, 0], [0, 1, 0], [3, 5, 0], [0, 1, 0]), ([0, 1, 0], [2, 5, 0], [0, 1, 0], [3, 5, 0])):
            for shape_tf in ([], [["translate", 0, 4]], [["scale", 1, 1, 2]]):
                at = [["gradientUnits", "objectBoundingBox", 0], ["x1", vec[0], 0], ["y1", vec[1], 0], ["x2", vec[2], 0],
                      ["y2", vec[3], 0], ["gradientTransform", [["matrixq"] + tq], 0]]
                docs.append({"vb": [0, 0, 16, 16], "view": [0, 0, 16, 16], "root": [], "nodes": [
                    {"d": 1, "tag": "linearGradient", "id": "s", "at": at, "g": stops, "ref": ""},
                    {"d": 1, "tag": "rect", "id": "", "g": [2, 2, 10, 5, -1, -1], "ref": "",
                     "at": [["fill", "url(#s)", 0], ["fillref", "s", 0]] + ([["transform", shape_tf, 0]] if shape_tf else [])}]})
    # focal points and centres given as percentages of a NON-SQUARE viewport (x: of its width, y: of its
    # height), user space units, on transformed and untransformed shapes
    for fx in (None, [25, 1, 1], [10, 1, 0]):
        for fy in (None, [25, 1, 1], [75, 1, 1], [12, 1, 0]):
            for cy in ([50, 1, 1], [10, 1, 0]):
                for shape_tf in ([], [["translate", 3, 1]], [["scale", 1, 1, 2]]):
                    at = [["gradientUnits", "userSpaceOnUse", 0], ["cx", [8, 1, 0], 0], ["cy", cy, 0], ["r", [7, 1, 0], 0]]
                    if fx:
                        at.append(["fx", fx, 0])
                    if fy:
                        at.append(["fy", fy, 0])
                    docs.append({"vb": [0, 0, 16, 16], "view": [0, 0, 16, 32], "root": [], "nodes": [
                        {"d": 1, "tag": "radialGradient", "id": "r", "at": at, "g": stops, "ref": ""},
                        {"d": 1, "tag": "rect", "id": "", "g": [2, 2, 12, 13, -1, -1], "ref": "",
                         "at": [["fill", "url(#r)", 0], ["fillref", "r", 0]] +
                               ([["transform", shape_tf, 0]] if shape_tf else [])}]})
    return docs


def run(out, tier):
    wd = common.workdir("c06")
    try:
        recs, texts, verdicts = render.run_render(out, "C06", "grad", tier, 1600, 12000, wd=wd, max_nodes=7,
                                                  keep=no_stroke_no_clip, module="TraceGrad", cfg="TraceGrad.cfg",
                                                  extra_docs=template_family())
        cov = out.coverage
        cov["distinct_nontrivial"] = cov["parts"]["verdict_histogram"].get("ok:gradient", 0)
        cov["rule"] = ("documents drawn by TLC -simulate from Build.tla (Focus=grad: linear and radial gradients "
                       "with numbers or percentages, both gradientUnits, gradientTransform lists, 3 spreadMethods, "
                       "href chains contributing attributes and/or stops, shared by transformed / untransformed / "
                       "instanced / invisible shapes; unstroked, unclipped as the scope says); non-trivial = a "
                       "gradient-filled layer is painted and TLC compared paint stacks and the gradient parameter "
                       "on the sample lattice")
        for (svg, res), v in zip(texts, verdicts):
            if v == "ok:gradient" and len(cov["samples"]) < 2:
                cov["samples"].append({"svg": svg, "verdict": v})
        if cov["distinct_nontrivial"] < len(recs) // 5:
            raise common.MachineryError("vacuous run: %r" % cov["parts"])
        for rec, (svg, res), v in zip(recs, texts, verdicts):
            if v.startswith("BAD"):
                out.violation(classify(rec, v), "TLC rejected trace: " + v,
                              {"svg": svg, "output": res, "verdict": v})
    finally:
        common.cleanup(wd)


def replay(path):
    import json
    print(json.load(open(path))["witness"]["svg"])
    return 0
