"""C13 — boolean path operations compute the set operation under each operand's fill rule.

The operand catalogue and the tuples/rules/operations are an exhaustive product (pairs) plus seeded
triples/quadruples; the real svg_pathops / svg_types wrappers are called; TraceBool.tla judges."""
import itertools
import json
import random

from . import common, doc as D

# catalogue: (name, kind, data) ; polys in user units (integers)
CAT = [
    ("sqA", "poly", [[1, 1, 7, 1, 7, 7, 1, 7]]),
    ("sqB", "poly", [[4, 3, 11, 3, 11, 10, 4, 10]]),
    ("sqEdge", "poly", [[7, 1, 11, 1, 11, 7, 7, 7]]),          # shares the edge x = 7 with sqA
    ("bowtie", "poly", [[2, 2, 10, 10, 10, 2, 2, 10]]),
    ("pentagram", "poly", [[8, 1, 11, 13, 2, 5, 14, 5, 5, 13]]),
    ("frameSame", "poly", [[2, 2, 12, 2, 12, 12, 2, 12], [5, 5, 9, 5, 9, 9, 5, 9]]),
    ("frameOpp", "poly", [[2, 2, 12, 2, 12, 12, 2, 12], [5, 5, 5, 9, 9, 9, 9, 5]]),
    ("ell", "poly", [[3, 3, 11, 3, 11, 7, 7, 7, 7, 11, 3, 11]]),
    ("twoSq", "poly", [[1, 1, 5, 1, 5, 5, 1, 5], [8, 8, 13, 8, 13, 13, 8, 13]]),
    ("open3", "open", [[2, 12, 8, 2, 13, 11]]),                  # open polyline: closed for filling
    # two open contours, the second starting where the first stopped (each closes on its own start)
    ("openPair", "open", [[1, 1, 9, 1, 9, 7], [9, 7, 9, 13, 1, 13]]),
    # a closed contour followed by an open one that starts at the closed one's last drawn point
    ("closedThenOpen", "mixed", [[2, 2, 8, 2, 8, 8], [8, 8, 14, 8, 14, 14]]),
    ("circle", "ellipse", [8, 8, 5, 5]),
    ("ellipse", "ellipse", [7, 6, 6, 3]),
    ("collinear", "poly", [[1, 1, 5, 5, 9, 9]]),
    # curved operands: the spec gets the harness's own flattening (1/64 units); the last one is a contour
    # on which Skia's Simplify gives up (an error is the accepted outcome there, a wrong path is not)
    ("blob", "curve", "M2,8 C2,2 12,2 12,8 C12,14 2,14 2,8 Z"),
    ("ribbon", "curve", "M2,2 C14,2 14,12 8,12 C2,12 2,4 12,3 L12,6 C6,6 6,10 8,10 C10,10 11,5 2,5 Z"),
    ("crossed", "curve", "M3,3 C15,3 1,13 13,13 L13,3 C1,3 15,13 3,13 Z"),
    ("tricky", "curve", "M8,13 C0,3 16,0 12,17 C6,14 5,11 9,12 Z"),
    ("nested2", "poly", [[1, 1, 13, 1, 13, 13, 1, 13], [3, 3, 11, 3, 11, 11, 3, 11], [5, 5, 9, 5, 9, 9, 5, 9]]),
]
# pinned operands: only used in the pinned jobs below (polygons on a 3-unit grid with many coincident and
# collinear edges, on which Skia's boolean operations return a wrong path without reporting failure)
PINNED = [
    ("skA1", "mixed", [[3, 6, 0, 9, 12, 6, 9, 9, 0, 9, 6, 12], [12, 12, 0, 6, 0, 12]]),
    ("skB1", "poly", [[0, 9, 12, 6, 6, 12, 9, 0]]),
    ("skA2", "poly", [[12, 0, 12, 3, 9, 9]]),
    ("skB2", "poly", [[3, 3, 3, 6, 9, 6, 9, 12, 12, 12]]),
    ("skC2", "poly", [[6, 12, 12, 0, 3, 3], [12, 0, 6, 6, 6, 12]]),
    # operands far away from the others (disjoint bounding boxes), interior depending on the rule
    ("farFrame", "poly", [[22, 2, 32, 2, 32, 12, 22, 12], [25, 5, 29, 5, 29, 9, 25, 9]]),
    ("farPent", "poly", [[28, 1, 31, 13, 22, 5, 34, 5, 25, 13]]),
]
FARBOX = [-1, -1, 36, 18]
CATX = CAT + PINNED
NCAT = len(CAT)
PINNED_JOBS = [
    ("difference", "pathops", (NCAT + 0, NCAT + 1), ("evenodd", "evenodd")),
    ("union", "pathops", (NCAT + 2, NCAT + 3, NCAT + 4), ("nonzero", "evenodd", "evenodd")),
]
for _far in (5, 6):
    for _near in (0, 3, 5):            # sqA, bowtie, frameSame
        for _rules in (("evenodd", "nonzero"), ("nonzero", "evenodd"), ("evenodd", "evenodd")):
            for _op in ("union", "difference", "intersection"):
                PINNED_JOBS.append((_op, "pathops", (_near, NCAT + _far), _rules, FARBOX))
                PINNED_JOBS.append((_op, "types", (NCAT + _far, _near), _rules, FARBOX))
BOX = [-1, -1, 15, 18]


def cmds_of(entry):
    name, kind, data = entry
    if kind == "ellipse":
        from picosvg.svg_types import SVGEllipse
        return tuple(SVGEllipse(cx=data[0], cy=data[1], rx=data[2], ry=data[3]).as_cmd_seq())
    if kind == "curve":
        from picosvg.svg_types import SVGPath
        return tuple(SVGPath(d=data).as_cmd_seq())
    out = []
    for k, c in enumerate(data):
        out.append(("M", (float(c[0]), float(c[1]))))
        for i in range(2, len(c), 2):
            out.append(("L", (float(c[i]), float(c[i + 1]))))
        if kind == "poly" or (kind == "mixed" and k == 0):
            out.append(("Z", ()))
    return tuple(out)


def d_of(cmds):
    return " ".join(c + " ".join(repr(a) for a in args) for c, args in cmds)


def spec_opnd(entry, rule):
    name, kind, data = entry
    if kind == "ellipse":
        return {"kind": "ellipse", "g": data, "polys": [], "rule": rule}
    if kind == "curve":
        return {"kind": "fine", "g": [], "polys": D.quant(D.flatten(data)), "rule": rule}
    return {"kind": "poly", "g": [], "polys": data, "rule": rule}


def call(op, api, entries, rules):
    from picosvg import svg_pathops, svg_types
    from picosvg.svg_types import SVGPath

    seqs = [cmds_of(e) for e in entries]
    if api == "pathops":
        if op == "remove_overlaps":
            return list(svg_pathops.remove_overlaps(seqs[0], rules[0]))
        return list(getattr(svg_pathops, op)(seqs, rules))
    shapes = [SVGPath(d=d_of(s), clip_rule=r, fill_rule=r) for s, r in zip(seqs, rules)]
    if op == "remove_overlaps":
        return list(shapes[0].remove_overlaps())
    if op == "intersection":
        return list(svg_types.intersection(shapes, fill_rules=rules))
    if op == "intersection_default":
        return list(svg_types.intersection(shapes))
    return list(getattr(svg_types, op)(shapes))


def one(job):
    op, api, idxs, rules = job[:4]
    entries = [CATX[i] for i in idxs]
    rec = {"op": "intersection" if op == "intersection_default" else op, "box": job[4] if len(job) > 4 else BOX,
           "opnds": [spec_opnd(e, r) for e, r in zip(entries, rules)]}
    try:
        res = call(op, api, entries, list(rules))
        polys = D.quant(D.flatten(d_of(res))) if res else []
        xs = [v for pl in polys for v in pl[0::2]] or [0]
        ys = [v for pl in polys for v in pl[1::2]] or [0]
        rec["r"] = {"k": "ok", "polys": polys, "bb": [min(xs), min(ys), max(xs), max(ys)]}
    except Exception as e:  # noqa
        rec["r"] = {"k": "exc", "t": type(e).__name__, "polys": [], "bb": [0, 0, 0, 0]}
    return rec


_UNSIMPLIFIABLE = {}


def unsimplifiable(entry):
    """asked of the engine itself (skia-pathops), not of picosvg: does Simplify give up on this contour?"""
    name = entry[0]
    if name not in _UNSIMPLIFIABLE:
        import pathops
        from picosvg.svg_pathops import skia_path
        bad = False
        for rule in ("nonzero", "evenodd"):
            try:
                skia_path(cmds_of(entry), rule).simplify(fix_winding=True)
            except pathops.PathOpsError:
                bad = True
        _UNSIMPLIFIABLE[name] = bad
    return _UNSIMPLIFIABLE[name]


def classify(job, verdict):
    op, api, idxs, rules = job[:4]
    names = [CATX[i][0] for i in idxs]
    if any(n.startswith("sk") for n in names):
        return "C13/engine-silently-wrong/coincident-collinear-edges/" + op + "/" + "+".join(names)
    if len(idxs) >= 2 and any(unsimplifiable(CATX[i]) for i in idxs):
        # the engine returns a wrong path without reporting failure; picosvg passes it on
        return "C13/engine-silently-wrong/operand-skia-cannot-simplify"
    return "C13/" + verdict.split(":", 1)[1].split("@")[0] + "/" + op + "/" + "+".join(sorted(set(names)))


def jobs_for(tier, rng):
    jobs = []
    n = len(CAT)
    rules2 = list(itertools.product(("nonzero", "evenodd"), repeat=2))
    for i in range(n):
        for r in ("nonzero", "evenodd"):
            jobs.append(("remove_overlaps", "pathops", (i,), (r,)))
            jobs.append(("remove_overlaps", "types", (i,), (r,)))
            jobs.append(("union", "pathops", (i,), (r,)))
    pairs = list(itertools.product(range(n), repeat=2))
    for (i, j) in pairs:
        for rr in rules2:
            for op in ("union", "intersection", "difference"):
                if tier == "quick" and rng.random() > 0.22:
                    continue
                jobs.append((op, "pathops" if rng.random() < 0.5 else "types", (i, j), rr))
    jobs.extend(PINNED_JOBS)
    ntr = 500 if tier == "quick" else 8000
    for _ in range(ntr):
        k = rng.choice([3, 3, 4])
        idxs = tuple(rng.randrange(n) for _ in range(k))
        rules = tuple(rng.choice(("nonzero", "evenodd")) for _ in range(k))
        op = rng.choice(["union", "intersection", "difference", "intersection_default"])
        jobs.append((op, rng.choice(["pathops", "types"]) if op != "intersection_default" else "types", idxs, rules))
    return jobs


def run(out, tier):
    rng = random.Random(common.seed())
    wd = common.workdir("c13")
    try:
        jobs = jobs_for(tier, rng)
        recs = common.pmap(one, jobs)
        verdicts, st, tr = common.validate_traces("TraceBool", "TraceBool.cfg", recs, wd, chunk=5000,
                                                  env={"DENSE": "1" if tier == "thorough" else "0"})
        cov = out.coverage
        cov["states"] += st
        cov["transitions"] += tr
        cov["traces_validated_against_impl"] += len(recs)
        cov["evaluations"] += len(recs)
        hist = {}
        for v in verdicts:
            k = v.split("@")[0]
            hist[k] = hist.get(k, 0) + 1
        cov["parts"]["verdict_histogram"] = hist
        cov["distinct_nontrivial"] = hist.get("ok:setop", 0)
        cov["rule"] = ("catalogue of %d lattice paths (general and edge-sharing squares, bow-tie, pentagram, "
                       "frames with same/opposite direction holes, L, disjoint contours, open polyline, circle, "
                       "ellipse, collinear, triple nesting, four cubic contours incl. self-overlapping ones and one Skia cannot simplify) x a rule per operand x union/intersection/"
                       "difference/remove_overlaps through svg_pathops and the svg_types wrappers: singles and "
                       "pairs exhaustive (quick: 22%% of pairs), triples/quadruples seeded; non-trivial = the "
                       "expected set is non-empty and TLC compared it on the quarter-unit lattice" % len(CAT))
        for j, v in zip(jobs, verdicts):
            if v == "ok:setop" and len(j[2]) >= 2 and len(cov["samples"]) < 2:
                cov["samples"].append({"op": j[0], "api": j[1], "operands": [CATX[i][0] for i in j[2]],
                                       "rules": j[3], "verdict": v})
        if cov["distinct_nontrivial"] < len(recs) // 3:
            raise common.MachineryError("vacuous run: %r" % hist)
        for j, v, r in zip(jobs, verdicts, recs):
            if v.startswith("BAD"):
                names = [CATX[i][0] for i in j[2]]
                out.violation(classify(j, v),
                              "TLC rejected trace: " + v,
                              {"op": j[0], "api": j[1], "operands": names, "rules": j[3], "verdict": v})
    finally:
        common.cleanup(wd)


def replay(path):
    w = json.load(open(path))["witness"]
    idx = {c[0]: i for i, c in enumerate(CATX)}
    print(one((w["op"], w["api"], tuple(idx[n] for n in w["operands"]), tuple(w["rules"]))))
    return 0
