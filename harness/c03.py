"""C03 — clip paths are rendered into exactly the clipped geometry."""
from . import render, rendercheck


def classify(rec, v):
    if render.use_target_value_lost(rec["doc"]):
        return "C03/use-target-explicit-inherited-value-lost"
    return "C03/render-mismatch"


CLIP_KIDS = [
    ("polygon", [2, 2, 10, 10, 10, 2, 2, 10]), ("polygon", [8, 1, 15, 8, 8, 15, 1, 8]),
    ("polygon", [8, 1, 11, 13, 2, 5, 14, 5, 5, 13]),
    ("path", [["M", 2, 2], ["h", 10], ["v", 10], ["h", -10], ["z"], ["M", 5, 5], ["h", 4], ["v", 4], ["h", -4], ["z"]]),
    ("path", [["M", 2, 2], ["h", 10], ["v", 10], ["h", -10], ["z"], ["M", 5, 5], ["v", 4], ["h", 4], ["v", -4], ["z"]]),
    ("rect", [1, 1, 6, 5, -1, -1]), ("circle", [9, 9, 5]),
]


def clip_family():
    """exhaustive: every ordered pair of clipPath children x a clip-rule per child (the clip region is the
    union of the children, each under its own rule), clipping a full-canvas rect"""
    docs = []
    for (ta, ga) in CLIP_KIDS:
        for (tb, gb) in CLIP_KIDS:
            for ra in ("nonzero", "evenodd"):
                for rb in ("nonzero", "evenodd"):
                    docs.append({"vb": [0, 0, 16, 16], "view": [0, 0, 16, 16], "root": [], "nodes": [
                        {"d": 1, "tag": "clipPath", "id": "c1", "at": [], "g": [], "ref": ""},
                        {"d": 2, "tag": ta, "id": "", "at": [["clip-rule", ra, 0]], "g": ga, "ref": ""},
                        {"d": 2, "tag": tb, "id": "", "at": [["clip-rule", rb, 1]], "g": gb, "ref": ""},
                        {"d": 1, "tag": "rect", "id": "", "at": [["fill", "red", 0], ["clip-path", "c1", 0]],
                         "g": [0, 0, 16, 16, -1, -1], "ref": ""}]})
    # a clipPath that is itself clipped, referenced from an element under a transform of its own or
    # of an ancestor: the inner clip lives in the same (referencing) user space as the outer one
    tfs = [[["translate", 3, 1]], [["scale", 1, 1, 2]], [["rotate", 90, 8, 8]], [["matrix", 1, 1, -1, 1, 8, 0]]]
    inner = [("rect", [4, 4, 8, 8, -1, -1]), ("circle", [8, 8, 5]), ("polygon", [8, 1, 15, 8, 8, 15, 1, 8])]
    for tf in tfs:
        for (ti, gi) in inner:
            for where in ("own", "ancestor", "clippath"):
                nodes = [
                    {"d": 1, "tag": "clipPath", "id": "ci", "at": [], "g": [], "ref": ""},
                    {"d": 2, "tag": ti, "id": "", "at": [], "g": gi, "ref": ""},
                    {"d": 1, "tag": "clipPath", "id": "co",
                     "at": [["clip-path", "ci", 0]] + ([["transform", tf, 0]] if where == "clippath" else []),
                     "g": [], "ref": ""},
                    {"d": 2, "tag": "rect", "id": "", "at": [], "g": [2, 2, 12, 12, -1, -1], "ref": ""}]
                target = {"d": 1, "tag": "rect", "id": "", "g": [0, 0, 16, 16, -1, -1], "ref": "",
                          "at": [["fill", "red", 0], ["clip-path", "co", 0]]}
                if where == "own":
                    target["at"].append(["transform", tf, 0])
                    nodes.append(target)
                elif where == "ancestor":
                    nodes.append({"d": 1, "tag": "g", "id": "", "at": [["transform", tf, 0]], "g": [], "ref": ""})
                    target["d"] = 2
                    nodes.append(target)
                else:
                    nodes.append(target)
                docs.append({"vb": [0, 0, 16, 16], "view": [0, 0, 16, 16], "root": [], "nodes": nodes})
    # clip-rule set on the clipPath element or above it, against what the child says itself (its own
    # declaration wins, silence inherits) - only visible on children that overlap themselves
    for (tk, gk) in (CLIP_KIDS[2], CLIP_KIDS[3]):
        for outer in ("nonzero", "evenodd"):
            for own, via in ((None, 0), ("nonzero", 0), ("evenodd", 0), ("nonzero", 1), ("evenodd", 1)):
                for where in ("clippath", "ancestor", "defs"):
                    kid = {"d": 2, "tag": tk, "id": "", "at": [["clip-rule", own, via]] if own else [], "g": gk, "ref": ""}
                    cp = {"d": 1, "tag": "clipPath", "id": "c1", "g": [], "ref": "",
                          "at": [["clip-rule", outer, 0]] if where == "clippath" else []}
                    nodes = [cp, kid]
                    if where == "ancestor":
                        cp["d"], kid["d"] = 2, 3
                        nodes = [{"d": 1, "tag": "g", "id": "", "at": [["clip-rule", outer, 0]], "g": [], "ref": ""}] + nodes
                    elif where == "defs":     # never rendered itself, but still the clipPath's parent
                        cp["d"], kid["d"] = 2, 3
                        nodes = [{"d": 1, "tag": "defs", "id": "", "at": [["clip-rule", outer, via]], "g": [], "ref": ""}] + nodes
                    nodes.append({"d": 1, "tag": "rect", "id": "", "at": [["fill", "red", 0], ["clip-path", "c1", 0]],
                                  "g": [0, 0, 16, 16, -1, -1], "ref": ""})
                    docs.append({"vb": [0, 0, 16, 16], "view": [0, 0, 16, 16], "root": [], "nodes": nodes})
    return docs


def run(out, tier):
    rendercheck.run_focus(
        out, "C03", "clip", tier, 2000, 12000,
        "documents drawn by TLC -simulate from Build.tla (Focus=clip: clipPath with 1-3 children "
        "incl. self-intersecting and multi-contour polygons and use, clip-rule on child or clipPath, "
        "transform on clipPath and children, clipPath clipped by another clipPath, clip-path on "
        "shapes, groups and use, stacked along ancestors under different CTMs, fill-rule != "
        "clip-rule) plus the exhaustive family: every ordered pair of 7 clipPath children x a clip-rule "
        "per child; non-trivial = source paints something and stacks were compared", classify,
        max_nodes=8, extra_docs=clip_family())


replay = rendercheck.replay
