"""C03 — clip paths are rendered into exactly the clipped geometry."""
from . import render, rendercheck


def classify(rec, v):
    if render.use_target_value_lost(rec["doc"]):
        return "C03/use-target-explicit-inherited-value-lost"
    return "C03/render-mismatch"


def run(out, tier):
    rendercheck.run_focus(
        out, "C03", "clip", tier, 2000, 12000,
        "documents drawn by TLC -simulate from Build.tla (Focus=clip: clipPath with 1-3 children "
        "incl. self-intersecting and multi-contour polygons and use, clip-rule on child or clipPath, "
        "transform on clipPath and children, clipPath clipped by another clipPath, clip-path on "
        "shapes, groups and use, stacked along ancestors under different CTMs, fill-rule != "
        "clip-rule); non-trivial = source paints something and stacks were compared", classify,
        max_nodes=8)


replay = rendercheck.replay
