"""C10 — path data parses per the SVG grammar or is rejected; printing round-trips.

Spec: spec/PathGrammar.tla (reference grammar), spec/TraceParse.tla (trace judge).
This file only enumerates inputs, calls the real parser/printer and records what it did.
"""
import itertools
import re
import random
from decimal import Decimal

from . import common

ALPHA13 = ["M", "m", "L", "z", "a", "0", "1", ".", "-", "+", "e", " ", ","]
NUMFORMS = ["0", "1", "-1", "+1", ".5", "1.5", "1e2", "1E-2", "01", "00", "1.", "-.5",
            "0.5e-1", "10", "-0", "1e+1", "007", "1.e1", "2.E+1", "-1.e-1", "3.e0"]
SEPS = ["", " ", ",", " , ", ",,", "\t", "  ", "\n", "\r\n", ",\n"]
CMDS = "MmZzLlHhVvCcSsQqTtAa"
ARITY = dict(M=2, Z=0, L=2, H=1, V=1, C=6, S=4, Q=4, T=2, A=7)


def val(x):
    """exact decimal of a Python number as [neg, mant, exp] (mant without trailing zeros)."""
    if isinstance(x, bool):
        x = int(x)
    d = Decimal(repr(x)) if isinstance(x, float) else Decimal(x)
    if d != d or d in (Decimal("inf"), Decimal("-inf")):
        return None
    sign, digits, exp = d.as_tuple()
    mant = int("".join(map(str, digits)))
    if mant == 0:
        return [0, 0, 0]
    while mant % 10 == 0:
        mant //= 10
        exp += 1
    if mant >= 2 ** 31 or abs(exp) > 10 ** 6:
        return None
    return [sign, mant, exp]


def tame(s):
    """strings whose numbers stay inside TLC's 32-bit integers (pre-filter, no judgement)."""
    run = 0
    for ch in s:
        if ch.isdigit() or ch == ".":
            run += 1
            if run > 9:
                return False
        else:
            run = 0
    # exponents beyond 2 digits leave the range where float(lexeme) is the exact decimal
    if re.search(r"[eE][-+]?[0-9]{3}", s):
        return False
    return len(s) <= 120


def outcome(fn):
    try:
        cmds = fn()
    except ValueError:
        return {"k": "ValueError"}
    except RecursionError:
        return {"k": "exc", "t": "RecursionError"}
    except Exception as e:  # noqa
        return {"k": "exc", "t": type(e).__name__}
    res = []
    for c, args in cmds:
        vs = []
        for a in args:
            v = val(a)
            if v is None:
                return None
            vs.append(v)
        res.append([c, vs])
    return {"k": "ok", "c": res}


def parse_trace(s):
    from picosvg.svg_path_iter import parse_svg_path

    o = outcome(lambda: list(parse_svg_path(s, exploded=False)))
    x = outcome(lambda: list(parse_svg_path(s, exploded=True)))
    if o is None or x is None:
        return None
    return {"kind": "parse", "s": list(s), "o": o, "x": x}


# ---------------------------------------------------------------------------- generators


def gen_exhaustive(maxlen, prefix=""):
    for n in range(0, maxlen + 1):
        for t in itertools.product(ALPHA13, repeat=n):
            yield prefix + "".join(t)


def gen_tokens(rng, n):
    """token sequences: command + every lexical number form + every separator choice."""
    out = []
    # exhaustive: M n s n, M n s n s n s n over a smaller form list handled by sampling
    for a in NUMFORMS:
        for b in NUMFORMS:
            for s in SEPS:
                out.append("M" + a + s + b)
                out.append("M 0 0 L" + a + s + b)
                out.append("M0 0h" + a + s + b)
    for a in NUMFORMS:
        for f1 in ["0", "1", "2", "01"]:
            for s1 in SEPS[:5]:
                for s2 in SEPS[:3]:
                    out.append("M0 0A1 1 " + a + s1 + f1 + s2 + "1" + s2 + "5 5")
                    out.append("M0 0a" + a + " 2 0 " + f1 + s2 + "0" + s2 + a + s1 + "5")
    while len(out) < n:
        k = rng.choice([1, 2, 3])
        parts = [rng.choice(["M", "m", " M", "M "])]
        parts += [rng.choice(NUMFORMS), rng.choice(SEPS), rng.choice(NUMFORMS)]
        for _ in range(k):
            c = rng.choice(CMDS)
            parts.append(rng.choice(["", " "]) + c + rng.choice(["", " "]))
            ar = ARITY[c.upper()]
            groups = rng.choice([1, 1, 2])
            nums = []
            for g in range(groups * ar):
                if c.upper() == "A" and g % 7 in (3, 4):
                    nums.append(rng.choice(["0", "1"]))
                else:
                    nums.append(rng.choice(NUMFORMS))
                nums.append(rng.choice(SEPS))
            parts += nums[:-1]
        out.append("".join(parts))
    return out


def gen_mutated(rng, n):
    ext = list("MmLlZzHhVvCcSsQqTtAa0123456789.-+eE ,\t\nx#") + ["é", "1e"]
    base = gen_tokens(rng, 400)[-400:]
    out = []
    while len(out) < n:
        s = rng.choice(base)
        if not s:
            continue
        i = rng.randrange(len(s))
        op = rng.randrange(3)
        if op == 0:
            s = s[:i] + rng.choice(ext) + s[i + 1:]
        elif op == 1:
            s = s[:i] + rng.choice(ext) + s[i:]
        else:
            s = s[:i] + s[i + 1:]
        out.append(s)
    return out


FLOATS = [0.0, -0.0, 1.0, -1.0, 0.5, 0.1 + 0.2, 1e-7, 1e-5, 1e16, 1e22, 1e23, float(2 ** 53 + 2),
          5e-324, 2.2250738585072014e-308, 1.7976931348623157e308, -1.7976931348623157e308,
          123456.789, 1e15 + 0.5, 3.0e-310, 1 / 3, -2.5e-9, 1e21, 1e-4, 0.0001234, 65536.0,
          4.35, 2.675, 1e100, -1e-100, 7, -3, 0]


def print_trace(cmds):
    """cmds: exploded-form commands [(letter, (floats...))]."""
    from picosvg.svg_types import SVGPath

    rec = {"kind": "print", "n": [[c, len(a)] for c, a in cmds], "d": [], "r": {"k": "none"},
           "eq": [], "v": []}
    try:
        d = SVGPath.from_commands(cmds).d
    except Exception as e:  # noqa
        rec["r"] = {"k": "exc", "t": "print:" + type(e).__name__}
        return rec, ""
    rec["d"] = list(d)
    try:
        back = list(SVGPath(d=d))
    except ValueError:
        rec["r"] = {"k": "ValueError"}
        return rec, d
    except Exception as e:  # noqa
        rec["r"] = {"k": "exc", "t": type(e).__name__}
        return rec, d
    rec["r"] = {"k": "ok", "n": [[c, len(a)] for c, a in back]}
    if rec["r"]["n"] == rec["n"]:
        rec["eq"] = [[1 if x == y else 0 for x, y in zip(a, b)]
                     for (_, a), (_, b) in zip(cmds, back)]
    # exact decimal values of the ORIGINAL arguments where they fit TLC's integers
    # (-1 marks "too big for TLC, value clause skipped for this argument")
    rec["v"] = [[(val(x) or [-1, 0, 0]) for x in a] for _, a in cmds]
    return rec, d


def gen_print_cases(rng, n):
    cases = []
    for c in CMDS:
        ar = ARITY[c.upper()]
        for f in FLOATS:
            args = [f] * ar
            if c.upper() == "A":
                args[0], args[1] = abs(args[0]), abs(args[1])  # SVG 1.1: radii are unsigned
                args[3], args[4] = 1, 0
            cases.append([("M", (0.0, 0.0)), (c, tuple(args))] if c not in "Mm" else [(c, tuple(args))])
    while len(cases) < n:
        k = rng.randrange(1, 5)
        cmds = [("M", (rng.choice(FLOATS), rng.choice(FLOATS)))]
        for _ in range(k):
            c = rng.choice(CMDS)
            ar = ARITY[c.upper()]
            args = [rng.choice(FLOATS) if rng.random() < 0.5 else
                    rng.choice([rng.uniform(-1e3, 1e3), rng.uniform(-1, 1) * 10 ** rng.randrange(-30, 30),
                                float(rng.randrange(-1000, 1000))]) for _ in range(ar)]
            if c.upper() == "A":
                args[0], args[1] = abs(args[0]), abs(args[1])
                args[3], args[4] = rng.randrange(2), rng.randrange(2)
            cmds.append((c, tuple(args)))
        cases.append(cmds)
    return cases


def classify(rec, verdict):
    """classifier key for known-findings (shape of the witness, not the exact input)."""
    return "C10/" + verdict


def run(out, tier):
    rng = random.Random(common.seed())
    wd = common.workdir("c10")
    try:
        strings = []
        if tier == "quick":
            strings += list(gen_exhaustive(3))
            strings += list(gen_exhaustive(4, prefix="M"))
            strings += gen_tokens(rng, 9000)
            strings += gen_mutated(rng, 8000)
            nprint = 1500
        else:
            strings += list(gen_exhaustive(4))
            strings += list(gen_exhaustive(5, prefix="M"))
            strings += list(gen_exhaustive(4, prefix="M1 1a"))
            strings += gen_tokens(rng, 150000)
            strings += gen_mutated(rng, 150000)
            nprint = 30000
        seen = set()
        recs = []
        skipped = 0
        for s in strings:
            if s in seen:
                continue
            seen.add(s)
            if not tame(s):
                skipped += 1
                continue
            r = parse_trace(s)
            if r is None:
                skipped += 1
                continue
            recs.append(r)
        src = [("parse", "".join(r["s"])) for r in recs]
        for cmds in gen_print_cases(rng, nprint):
            r, d = print_trace(cmds)
            recs.append(r)
            src.append(("print", repr(cmds)))
        verdicts, st, tr = common.validate_traces("TraceParse", "TraceParse.cfg", recs, wd)
        out.coverage["states"] += st
        out.coverage["transitions"] += tr
        out.coverage["traces_validated_against_impl"] += len(recs)
        out.coverage["evaluations"] += len(recs)
        hist = {}
        for v in verdicts:
            hist[v] = hist.get(v, 0) + 1
        out.coverage["parts"]["verdict_histogram"] = hist
        out.coverage["parts"]["skipped_out_of_int_range"] = skipped
        out.coverage["distinct_nontrivial"] = sum(
            n for v, n in hist.items() if v in ("ok:equal", "ok:rejected", "ok:roundtrip"))
        out.coverage["drift"] = sum(n for v, n in hist.items() if v.startswith("drift"))
        out.coverage["exhaustive"] = True
        out.coverage["rule"] = (
            "exhaustive strings over %r up to the tier's length bound (raw and after prefix "
            "'M'), token sequences over every lexical number form x separator choice, "
            "seeded single-character mutations, and print/parse round trips over a float "
            "boundary table x 20 commands; non-trivial = the string conforms to the SVG grammar "
            "(antecedent of the parse clause holds) or is a print round-trip" % "".join(ALPHA13))
        for want in ("ok:equal", "ok:nonconforming", "ok:roundtrip"):
            for (kind, s), v in zip(src, verdicts):
                if v == want:
                    out.coverage["samples"].append({"kind": kind, "input": s, "verdict": v})
                    break
        if hist.get("ok:equal", 0) == 0 or hist.get("ok:roundtrip", 0) == 0:
            raise common.MachineryError("vacuous run: no conforming string / no round trip judged")
        for (kind, s), v, r in zip(src, verdicts, recs):
            if v.startswith("BAD"):
                out.violation(classify(r, v), "TLC rejected trace: " + v,
                              {"kind": kind, "input": s, "trace": r if len(s) < 200 else None})
        out.assumptions += [
            "Python float()/repr() round-trip is trusted for the exact decimal value of a float",
            "strings with digit runs > 9 are not judged (TLC integers are 32-bit)",
        ]
    finally:
        common.cleanup(wd)


def replay(path):
    import json

    w = json.load(open(path))["witness"]
    if w["kind"] == "parse":
        print(parse_trace(w["input"]))
    else:
        print(print_trace(eval(w["input"], {"inf": float("inf")})))
    return 0
