"""C18 — pruning of invisible content is conservative (spec/TracePrune.tla)."""
import itertools
import json
import random

from lxml import etree

from . import common, doc as D

BOX = [-1, -1, 15, 15]
SQ = [["M", 2, 2], ["L", 10, 2], ["L", 10, 10], ["L", 2, 10], ["Z"]]
SQ_IN = [["M", 4, 4], ["L", 8, 4], ["L", 8, 8], ["L", 4, 8], ["Z"]]
GEOMS = [
    ("path", [["M", 1, 1], ["L", 5, 5], ["L", 9, 9], ["Z"]]),          # collinear
    ("path", [["M", 3, 3]]),                                          # move only
    ("path", [["M", 3, 3], ["Z"]]),
    ("path", [["M", 1, 1], ["L", 1, 1]]),                             # zero-length segment
    ("path", SQ + SQ),                                                # coincident: cancel under evenodd
    ("path", SQ + SQ_IN),                                             # nested same direction
    ("path", SQ),
    ("path", [["M", 9, 1], ["L", 9, 5], ["L", 4, 5], ["Z"]]),          # closed, start off the diagonal
    ("path", [["M", 1, 1], ["L", 9, 9]]),                             # open two-point line
    ("path", [["M", 2, 2], ["L", 10, 10], ["L", 10, 2], ["L", 2, 10], ["Z"]]),
    ("path", [["M", 1, 1], ["M", 5, 5], ["M", 2, 8]]),                # several movetos
    ("path", [["M", 2, 2], ["h", 6], ["v", 0], ["h", -6], ["z"]]),    # flat: zero area
    ("rect", [2, 2, 0, 5, -1, -1]), ("rect", [2, 2, 5, 0, -1, -1]), ("rect", [2, 2, 6, 5, -1, -1]),
    ("rect", [2, 2, 0, 0, -1, -1]),
    ("circle", [6, 6, 0]), ("circle", [6, 6, 4]),
    ("ellipse", [6, 6, 0, 3]), ("ellipse", [6, 6, 4, 3]),
    ("line", [1, 1, 9, 5]), ("line", [3, 3, 3, 3]),
    ("polyline", [1, 1, 9, 9]), ("polygon", [1, 1, 5, 5, 9, 9]), ("polygon", [1, 1, 9, 1, 5, 8]),
    ("polyline", [1, 1, 9, 1, 5, 8]),
]
PAINT = {
    "stroke": [None, "blue"],
    "stroke-width": [None, 0, 1],
    "opacity": [None, -1, 1],
    "fill-opacity": [None, -1],
    "stroke-opacity": [None, -1],
    "display": [None, "none"],
    # a pair = (presentation attribute, style declaration): the style declaration wins
    "fill-rule": [None, "evenodd", ("evenodd", "nonzero"), ("nonzero", "evenodd")],
    "fill": [None, "none", "red", ("none", "red"), ("red", "none")],
}


def paint_combos(rng, n=None):
    keys = list(PAINT)
    allc = list(itertools.product(*[PAINT[k] for k in keys]))
    if n is not None and n < len(allc):
        allc = rng.sample(allc, n)
    for combo in allc:
        at = []
        for k, v in zip(keys, combo):
            if isinstance(v, tuple):
                at.append([k, v[0], 0])
                at.append([k, v[1], 1])
            elif v is not None:
                at.append([k, v, 1 if rng.random() < 0.3 else 0])
        yield at


def shape_doc(shapes):
    nodes = [{"d": 1, "tag": t, "id": "s%d" % i, "at": at, "g": g, "ref": ""} for i, (t, g, at) in enumerate(shapes)]
    return D.concretise({"vb": [0, 0, 16, 16], "root": [], "nodes": nodes})


def shape_job(job):
    from picosvg.svg import SVG
    tag, g, at = job
    rec = {"kind": "shape", "tag": tag, "g": g, "at": at, "box": BOX, "mp": -1}
    try:
        svg = SVG.fromstring(shape_doc([(tag, g, at)]))
        rec["mp"] = 1 if svg.shapes()[0].might_paint() else 0
    except Exception as e:  # noqa
        rec["mp"] = -1
    return rec


def doc_job(shapes):
    from picosvg.svg import SVG
    rec = {"kind": "doc", "shapes": [{"tag": t, "g": g, "at": at} for t, g, at in shapes], "box": BOX,
           "removed": [0] * len(shapes), "rest": -1}
    src = shape_doc(shapes)
    try:
        out = SVG.fromstring(src).remove_unpainted_shapes().tostring()
        root = etree.fromstring(out.encode())
        ids = {el.attrib.get("id") for el in root.iter() if isinstance(el.tag, str)}
        rec["removed"] = [0 if "s%d" % i in ids else 1 for i in range(len(shapes))]
        ref = etree.fromstring(SVG.fromstring(src).tostring().encode())
        for el in list(ref.iter()):
            if isinstance(el.tag, str) and el.attrib.get("id", "").startswith("s") \
                    and rec["removed"][int(el.attrib["id"][1:])]:
                el.getparent().remove(el)
        c = lambda e: etree.tostring(e, method="c14n")
        rec["rest"] = 1 if c(ref) == c(root) else 0
    except Exception:  # noqa
        rec["rest"] = -1
    return rec, src


def sub_job(job):
    from picosvg.svg_types import SVGPath
    subs, at, implicit = job
    rec = {"kind": "subpaths", "subs": subs, "at": at, "box": BOX, "kept": [0] * len(subs), "rest": -1}
    # implicit = indices of subpaths written WITHOUT their moveto (they follow a closepath and start
    # at the start point of the closed subpath before them, SVG 8.3.3)
    d = " ".join(c[0] + " ".join(str(x) for x in c[1:])
                 for k, s in enumerate(subs) for c in (s[1:] if k in implicit else s))
    kw = {}
    style = []
    for name, v, via in at:
        if via == 1:
            # given as a style declaration on the path itself
            style.append("%s:%s" % (name, D.attr_value(name, v)))
            continue
        kw[name.replace("-", "_")] = D.attr_value(name, v) if name not in ("stroke-width",) else float(v)
    if style:
        kw["style"] = ";".join(style)
    for k in ("opacity", "fill_opacity", "stroke_opacity"):
        if k in kw:
            kw[k] = float(kw[k])
    try:
        orig = list(SVGPath(d=d).subpaths())
        p = SVGPath(d=d, **kw)
        res = list(SVGPath(d=p.remove_empty_subpaths().d).subpaths())
        # which of the original subpaths are still there (in order)?
        kept, j = [], 0
        for o in orig:
            if j < len(res) and res[j] == o:
                kept.append(1)
                j += 1
            else:
                kept.append(0)
        if len(orig) != len(subs):
            rec["rest"] = -1
        else:
            rec["kept"] = kept
            rec["rest"] = 1 if j == len(res) else 0
    except Exception:  # noqa
        rec["rest"] = -1
    return rec, d


SUBS = [g for t, g in GEOMS if t == "path" and sum(1 for c in g if c[0] in "Mm") == 1]


def run(out, tier):
    rng = random.Random(common.seed())
    wd = common.workdir("c18")
    try:
        jobs = []
        ncombo = 160 if tier == "quick" else None
        for tag, g in GEOMS:
            for at in paint_combos(rng, ncombo):
                jobs.append((tag, g, at))
        # attribute against style declaration on every stroke property that decides visibility (the style
        # declaration wins), with and without a fill: exhaustive over the geometry catalogue
        for tag, g in GEOMS:
            for fill in ([["fill", "none", 0]], [["fill", "none", 1]], []):
                for pairs in ([["stroke-width", 0, 0], ["stroke-width", 1, 1]], [["stroke-width", 1, 0], ["stroke-width", 0, 1]],
                              [["stroke", "none", 0], ["stroke", "blue", 1]], [["stroke", "blue", 0], ["stroke", "none", 1]],
                              [["stroke-opacity", -1, 0], ["stroke-opacity", 1, 1]], [["stroke-opacity", 1, 0], ["stroke-opacity", -1, 1]],
                              [["opacity", -1, 0], ["opacity", 1, 1]], [["opacity", 1, 0], ["opacity", -1, 1]],
                              [["display", "none", 0], ["display", "inline", 1]], [["display", "inline", 0], ["display", "none", 1]]):
                    base = [] if pairs[0][0] == "stroke" else [["stroke", "blue", 0]]
                    jobs.append((tag, g, fill + base + pairs))
        recs = common.pmap(shape_job, jobs, chunksize=64)
        meta = [("shape", shape_doc([j])) for j in jobs]
        ndoc = 600 if tier == "quick" else 12000
        docjobs = []
        combos = list(paint_combos(rng, 400))
        for _ in range(ndoc):
            k = rng.choice([2, 3, 4])
            docjobs.append([(lambda tg: (tg[0], tg[1], rng.choice(combos)))(rng.choice(GEOMS)) for _ in range(k)])
        for r, src in common.pmap(doc_job, docjobs, chunksize=32):
            recs.append(r)
            meta.append(("doc", src))
        nsub = 800 if tier == "quick" else 12000
        subjobs = []
        for _ in range(nsub):
            k = rng.choice([1, 2, 3])
            at = [a for a in rng.choice(combos) if a[0] != "display"]
            at = [[n, v, 0] for n, v, via in at]
            subs = [rng.choice(SUBS) for _ in range(k)]
            implicit = []
            for i in range(1, len(subs)):
                prev, cur = subs[i - 1], subs[i]
                if prev[-1][0] in "Zz" and len(cur) > 1 and cur[1][0] not in "Mm" and rng.random() < 0.5:
                    # continue after the closepath without a moveto: same geometry as starting at prev's start
                    subs[i] = [["M", prev[0][1], prev[0][2]]] + cur[1:]
                    implicit.append(i)
            subjobs.append((subs, at, implicit))
        # exhaustive: every closed subpath followed by every other one continuing without a moveto
        for prev in SUBS:
            for cur in SUBS:
                if prev[-1][0] in "Zz" and len(cur) > 1:
                    for at in ([], [["fill", "none", 0], ["stroke", "blue", 0]]):
                        subjobs.append(([prev, [["M", prev[0][1], prev[0][2]]] + cur[1:]], at, [1]))
        # paint given through the path's own style attribute (a stroke makes zero-area subpaths visible)
        for a in SUBS:
            for b in SUBS:
                for at in ([["fill", "none", 1], ["stroke", "blue", 1]], [["stroke", "blue", 1], ["stroke-width", 2, 1]],
                           [["fill", "none", 0], ["stroke", "red", 1]]):
                    subjobs.append(([a, b], at, []))
        for r, d in common.pmap(sub_job, subjobs, chunksize=32):
            recs.append(r)
            meta.append(("subpaths", d + " " + json.dumps(r["at"])))
        verdicts, st, tr = common.validate_traces("TracePrune", "TracePrune.cfg", recs, wd, chunk=20000)
        cov = out.coverage
        cov["states"] += st
        cov["transitions"] += tr
        cov["traces_validated_against_impl"] += len(recs)
        cov["evaluations"] += len(recs)
        hist = {}
        for v in verdicts:
            hist[v] = hist.get(v, 0) + 1
        cov["parts"]["verdict_histogram"] = hist
        cov["distinct_nontrivial"] = sum(n for v, n in hist.items() if v.startswith("ok:unpaintable") or
                                         v in ("ok:removal-conservative", "ok:subpaths-conservative",
                                               "ok:might-paint-yes"))
        cov["rule"] = ("degenerate-geometry catalogue (%d shapes: collinear, zero-size, move-only, zero-length, "
                       "coincident subpaths cancelling under evenodd, nested, open lines ...) x combinations of "
                       "fill, stroke, stroke-width, opacity, fill-opacity, stroke-opacity, display, fill-rule given "
                       "as attribute or style (quick: %s of 11520 combinations per shape); documents of 2-4 such "
                       "shapes through remove_unpainted_shapes; paths of 1-3 subpaths (some continuing after a closepath without a moveto) through "
                       "remove_empty_subpaths with the path's own paint" % (len(GEOMS), ncombo or "all"))
        for (kind, src), v in zip(meta, verdicts):
            if v.startswith("ok:unpaintable-no") and len(cov["samples"]) < 1:
                cov["samples"].append({"kind": kind, "input": src, "verdict": v})
            if v == "ok:removal-conservative" and len(cov["samples"]) < 2:
                cov["samples"].append({"kind": kind, "input": src, "verdict": v})
        if not hist.get("ok:removal-conservative") or not hist.get("ok:subpaths-conservative"):
            raise common.MachineryError("vacuous run: %r" % hist)
        for (kind, src), v, r in zip(meta, verdicts, recs):
            if v.startswith("BAD"):
                out.violation(classify(kind, v, r), "TLC rejected trace: " + v,
                              {"kind": kind, "input": src, "verdict": v})
    finally:
        common.cleanup(wd)


def classify(kind, v, r):
    return "C18/" + v.split(":", 1)[1]


def replay(path):
    w = json.load(open(path))["witness"]
    print(w)
    return 0
