"""C05 — every output path carries the paint and opacity the SVG cascade assigns."""
from . import render, rendercheck


def classify(rec, v):
    if render.use_target_value_lost(rec["doc"]):
        return "C05/use-target-explicit-inherited-value-lost"
    return "C05/render-mismatch"


def hidden_template_family():
    """the hidden-template idiom: a <use> of something that lives inside a display:none container (or is
    hidden itself only through an ancestor) - display is not inherited, the instance renders"""
    docs = []
    shapes = [("rect", [2, 3, 6, 5, -1, -1]), ("polygon", [2, 2, 12, 3, 5, 11])]
    for tag, g in shapes:
        for via in (0, 1):
            for container in ("g", "gg", "defs-g"):
                for use_at in ([], [["fill", "blue", 0]], [["opacity", 1, 0]], [["display", "inline", via]]):
                    nodes = []
                    d = 1
                    if container == "defs-g":
                        nodes.append({"d": 1, "tag": "defs", "id": "", "at": [], "g": [], "ref": ""})
                        d = 2
                    nodes.append({"d": d, "tag": "g", "id": "", "at": [["display", "none", via]], "g": [], "ref": ""})
                    d += 1
                    if container == "gg":
                        nodes.append({"d": d, "tag": "g", "id": "", "at": [["fill", "lime", 0]], "g": [], "ref": ""})
                        d += 1
                    nodes.append({"d": d, "tag": tag, "id": "t", "at": [["fill", "red", 0]] if container != "gg" else [],
                                  "g": g, "ref": ""})
                    nodes.append({"d": 1, "tag": "use", "id": "", "g": [3, 1], "ref": "t", "at": list(use_at)})
                    nodes.append({"d": 1, "tag": "rect", "id": "", "at": [["fill", "black", 0]], "g": [9, 9, 5, 5, -1, -1],
                                  "ref": ""})
                    docs.append({"vb": [0, 0, 16, 16], "view": [0, 0, 16, 16], "root": [], "nodes": nodes})
    return docs


def run(out, tier):
    rendercheck.run_focus(
        out, "C05", "paint", tier, 1200, 12000,
        "documents drawn by TLC -simulate from Build.tla (Focus=paint: fill, fill-opacity, opacity, "
        "fill-rule, display as attribute and/or style declaration, conflicting attribute+style, on "
        "shapes, nested groups, root and use, overlapping catalogue geometry); non-trivial = the "
        "source paints something and TLC compared the normalised nested paint stacks (paint, alpha "
        "exponent, opacity-group structure) of source and output on the sample lattice; plus the "
        "hidden-template family (use of a target inside a display:none container)", classify,
        extra_docs=hidden_template_family())


replay = rendercheck.replay
