"""C05 — every output path carries the paint and opacity the SVG cascade assigns."""
from . import render, rendercheck


def classify(rec, v):
    if render.use_target_value_lost(rec["doc"]):
        return "C05/use-target-explicit-inherited-value-lost"
    return "C05/render-mismatch"


def run(out, tier):
    rendercheck.run_focus(
        out, "C05", "paint", tier, 1200, 12000,
        "documents drawn by TLC -simulate from Build.tla (Focus=paint: fill, fill-opacity, opacity, "
        "fill-rule, display as attribute and/or style declaration, conflicting attribute+style, on "
        "shapes, nested groups, root and use, overlapping catalogue geometry); non-trivial = the "
        "source paints something and TLC compared the normalised nested paint stacks (paint, alpha "
        "exponent, opacity-group structure) of source and output on the sample lattice", classify)


replay = rendercheck.replay
