"""Shared plumbing for the picosvg TLA+ verification harness.

Nothing in here decides a property.  It (a) runs TLC (generation, model checking, batch
trace validation), (b) keeps the books (evidence, known findings, replays, exit codes).
The property predicates live in /verif/spec/*.tla and are evaluated by TLC.
"""
import hashlib
import json
import os
import re
import shutil
import subprocess
import sys
import time

VERIF = os.path.dirname(os.path.dirname(os.path.abspath(__file__)))
SPEC = os.path.join(VERIF, "spec")
WORK = os.path.join(VERIF, ".work")
# runs against something other than /repo itself (seeded changes in scratch worktrees) must not write into
# the evidence directory that is committed: PICOSVG_REPO set => evidence goes to a scratch directory
EVID = os.path.join(VERIF, "evidence") if os.environ.get("PICOSVG_REPO", "/repo") == "/repo" \
    else os.path.join(os.environ.get("TMPDIR", "/tmp"), "verif-evidence-not-repo")
REPLAYS = os.path.join(VERIF, "replays")
REPO = os.environ.get("PICOSVG_REPO", "/repo")
JAR = "/opt/veriftools/tla/tla2tools.jar:/opt/veriftools/tla/CommunityModules-deps.jar"
NCPU = int(os.environ.get("VERIF_WORKERS", str(os.cpu_count() or 4)))


class MachineryError(Exception):
    """Raised when the framework itself fails (exit 2, never a VIOLATION)."""


def seed():
    try:
        return int(os.environ.get("VERIF_SEED", "0"))
    except ValueError:
        return 0


def workdir(name):
    d = os.path.join(WORK, name + "-" + str(os.getpid()))
    shutil.rmtree(d, ignore_errors=True)
    os.makedirs(d)
    return d


def cleanup(d):
    shutil.rmtree(d, ignore_errors=True)
    try:
        os.rmdir(WORK)
    except OSError:
        pass


class TLCResult:
    def __init__(self, out, wall):
        self.out = out
        self.wall = wall
        self.generated = 0
        self.distinct = 0
        m = None
        for m in re.finditer(
            r"(\d+) states generated, (\d+) distinct states found", out
        ):
            pass
        if m:
            self.generated = int(m.group(1))
            self.distinct = int(m.group(2))
        else:
            # simulation mode: "The number of states generated: N"
            m2 = re.search(r"The number of states generated: (\d+)", out)
            if m2:
                self.generated = self.distinct = int(m2.group(1))
        self.lines = out.splitlines()
        self.completed = (
            "Model checking completed. No error has been found." in out
            or "Finished in" in out
        )
        self.invariant_violated = re.search(
            r"Invariant (\S+) is violated|Action property (\S+) is violated|"
            r"Temporal properties were violated", out
        )

    def printed(self, prefix):
        """Lines printed by PrintT("<prefix> ...") (TLC wraps strings in quotes)."""
        res = []
        p = '"' + prefix + " "
        for ln in self.lines:
            if ln.startswith(p) and ln.endswith('"'):
                res.append(ln[1:-1][len(prefix) + 1 :])
        return res

    def json_lines(self, prefix):
        """Lines printed by PrintT(prefix \\o " " \\o ToJson(x))."""
        res = []
        for body in self.printed(prefix):
            # TLC prints the TLA+ string escaped: \" -> \\\" ; undo one level
            try:
                res.append(json.loads(json.loads('"' + body + '"')))
            except Exception:
                try:
                    res.append(json.loads(body.replace('\\"', '"').replace("\\\\", "\\")))
                except Exception as e:  # pragma: no cover
                    raise MachineryError("cannot parse TLC JSON line: %r (%s)" % (body[:200], e))
        return res


def tlc(module, cfg, wd, env=None, workers=None, simulate=None, depth=None,
        timeout=3600, extra=(), heap="8g", seedval=None, allow_violation=False):
    """Run TLC on spec/<module>.tla with spec/<cfg>.  Returns TLCResult.

    Raises MachineryError on parse errors, crashes or timeouts (exit 2 of the check)."""
    workers = workers or NCPU
    meta = os.path.join(wd, "meta-" + module + "-" + hashlib.md5(cfg.encode()).hexdigest()[:6])
    shutil.rmtree(meta, ignore_errors=True)
    cmd = [
        "java", "-XX:+UseParallelGC", "-Xmx" + heap, "-Xss64m", "-cp", JAR, "tlc2.TLC",
        "-workers", str(workers), "-metadir", meta, "-noGenerateSpecTE",
        "-config", os.path.join(SPEC, cfg),
    ]
    if simulate is not None:
        cmd += ["-simulate", "num=%d" % simulate]
        if depth:
            cmd += ["-depth", str(depth)]
    if seedval is not None:
        cmd += ["-seed", str(seedval)]
    cmd += list(extra)
    cmd += [os.path.join(SPEC, module + ".tla")]
    e = dict(os.environ)
    e.update(env or {})
    t0 = time.time()
    try:
        p = subprocess.run(cmd, cwd=SPEC, env=e, stdout=subprocess.PIPE,
                           stderr=subprocess.STDOUT, timeout=timeout, text=True,
                           errors="replace")
    except subprocess.TimeoutExpired:
        raise MachineryError("TLC timed out on %s/%s after %ss" % (module, cfg, timeout))
    finally:
        shutil.rmtree(meta, ignore_errors=True)
    res = TLCResult(p.stdout, time.time() - t0)
    bad = None
    if "Parsing or semantic analysis failed" in p.stdout or "***Parse Error***" in p.stdout:
        bad = "SANY error"
    elif p.returncode != 0 and not (allow_violation and res.invariant_violated):
        bad = "TLC exit %d" % p.returncode
    elif not res.completed and simulate is None:
        bad = "TLC did not complete"
    if bad:
        m_over = "Overflow when computing" in p.stdout
        keep = [l for l in res.lines if not l.startswith(('"V ', '"CASE ', "Linting", "Parsing file",
                                                          "Semantic processing"))]
        heads = []
        for i, l in enumerate(keep):
            if l.startswith("Error:") or "Exception" in l or "Overflow" in l:
                heads += keep[i:i + 6]
        tail = "\n".join(heads[:40] + ["..."] + keep[-12:])[-4000:]
        err = MachineryError("%s on %s/%s:\n%s" % (bad, module, cfg, tail))
        err.result = res
        err.overflow = m_over
        raise err
    return res


def write_ndjson(path, records):
    with open(path, "w") as f:
        for r in records:
            f.write(json.dumps(r, separators=(",", ":")))
            f.write("\n")


def validate_traces(module, cfg, records, wd, env=None, chunk=200000, timeout=3600,
                    workers=None, heap="12g"):
    """Batch trace validation: every record is one recorded implementation trace; the
    trace spec prints one line "V <tid> <verdict>" per trace.  Returns
    (verdicts: list[str] aligned with records, states, transitions)."""
    verdicts = [None] * len(records)
    states = trans = 0
    for base in range(0, len(records), chunk):
        part = records[base : base + chunk]
        path = os.path.join(wd, "traces-%s-%d.ndjson" % (module, base))
        write_ndjson(path, part)
        e = dict(env or {})
        e["TRACES"] = path
        skipped = {}
        for attempt in range(12):
            try:
                r = tlc(module, cfg, wd, env=e, timeout=timeout, workers=workers, heap=heap)
                break
            except MachineryError as err:
                # a record whose exact arithmetic leaves TLC's 32-bit integers cannot be judged: drop
                # it (verdict "skip:overflow", never a verdict on the code) and validate the rest
                res = getattr(err, "result", None)
                tids = re.findall(r"/\\ tid = (\d+)", res.out) if (res and getattr(err, "overflow", False)) else []
                tids = [int(t) for t in tids if int(t) > 0]
                if not tids:
                    raise
                # map the tid of this (possibly already reduced) file back to the original index
                live = [i for i in range(len(part)) if i not in skipped]
                bad_i = live[tids[-1] - 1]
                skipped[bad_i] = "skip:overflow"
                write_ndjson(path, [part[i] for i in range(len(part)) if i not in skipped])
        else:
            raise MachineryError("%s: too many records overflow TLC's integers" % module)
        states += r.distinct
        trans += r.generated
        live = [i for i in range(len(part)) if i not in skipped]
        for body in r.printed("V"):
            tid, _, v = body.partition(" ")
            verdicts[base + live[int(tid) - 1]] = v
        for i, v in skipped.items():
            verdicts[base + i] = v
        os.unlink(path)
    missing = [i for i, v in enumerate(verdicts) if v is None]
    if missing:
        raise MachineryError(
            "%s: TLC produced no verdict for %d traces (first tid %d)"
            % (module, len(missing), missing[0] + 1)
        )
    return verdicts, states, trans


# ----------------------------------------------------------------------------------------
# findings / evidence / exit protocol


def load_known():
    p = os.path.join(VERIF, "known_findings.json")
    if not os.path.exists(p):
        return {"findings": [], "fixed": []}
    with open(p) as f:
        return json.load(f)


class Outcome:
    """Collects what a check run found and turns it into stdout lines, evidence, exit code."""

    def __init__(self, pid, tier):
        self.pid = pid
        self.tier = tier
        self.t0 = time.time()
        self.violations = []  # (key, what, witness)
        self.coverage = {
            "states": 0, "transitions": 0, "traces_validated_against_impl": 0,
            "evaluations": 0, "distinct_nontrivial": 0, "samples": [], "rule": "",
            "drift": 0, "exhaustive": False, "parts": {},
        }
        self.assumptions = []

    def add_tlc(self, res):
        self.coverage["states"] += res.distinct
        self.coverage["transitions"] += res.generated

    def violation(self, key, what, witness):
        self.violations.append((key, what, witness))

    def finish(self):
        known = load_known()
        listed = {
            f["key"]: f for f in known.get("findings", []) if f.get("property") == self.pid
        }
        new = []
        seen_known = {}
        for key, what, witness in self.violations:
            if key in listed:
                seen_known.setdefault(key, (what, witness))
            else:
                new.append((key, what, witness))
        for key, (what, witness) in sorted(seen_known.items()):
            print("KNOWN-FINDING: property=%s %s (%s)" % (self.pid, key, listed[key]["what"]))
        rc = 0
        shutil.rmtree(os.path.join(REPLAYS, self.pid), ignore_errors=True)
        os.makedirs(os.path.join(REPLAYS, self.pid), exist_ok=True)
        reported = {}
        for key, what, witness in new:
            if reported.get(key, 0) >= 5:
                continue  # at most five replays per classifier key
            reported[key] = reported.get(key, 0) + 1
            blob = json.dumps({"property": self.pid, "key": key, "what": what,
                               "witness": witness}, indent=1, sort_keys=True)
            h = hashlib.sha1(blob.encode()).hexdigest()[:12]
            path = os.path.join(REPLAYS, self.pid, h + ".json")
            with open(path, "w") as f:
                f.write(blob)
            print("VIOLATION property=%s replay=%s" % (self.pid, path))
            print("  clause: %s -- %s" % (key, what))
            rc = 1
        cov = self.coverage
        cov["known_findings_seen"] = sorted(seen_known)
        cov["samples"] = cov["samples"][:8]
        ev = {
            "property_id": self.pid,
            "tier": self.tier,
            "seed": seed(),
            "level": "model_checking",
            "coverage": cov,
            "assumptions": self.assumptions,
            "wall_s": round(time.time() - self.t0, 2),
            "violations": len(new),
        }
        os.makedirs(EVID, exist_ok=True)
        with open(os.path.join(EVID, self.pid + ".json"), "w") as f:
            json.dump(ev, f, indent=1, sort_keys=True)
        print("%s %s: %d traces validated, %d nontrivial, %d states, %d new violation(s), "
              "%d known, %.1fs" % (self.pid, self.tier, cov["traces_validated_against_impl"],
                                   cov["distinct_nontrivial"], cov["states"], len(new),
                                   len(seen_known), time.time() - self.t0))
        return rc


def h12(obj):
    return hashlib.sha1(json.dumps(obj, sort_keys=True).encode()).hexdigest()[:12]


def pmap(fn, items, chunksize=8):
    """map over items in a fork pool (the harness is pure Python + picosvg: fork-safe)."""
    import multiprocessing as mp

    items = list(items)
    if len(items) < 32 or NCPU < 2:
        return [fn(x) for x in items]
    ctx = mp.get_context("fork")
    with ctx.Pool(min(NCPU, 16)) as pool:
        return pool.map(fn, items, chunksize=chunksize)


def tmap(fn, items, n=None):
    """thread pool map (for jobs that wait on subprocesses)."""
    from multiprocessing.pool import ThreadPool

    with ThreadPool(n or min(NCPU, 16)) as pool:
        return pool.map(fn, list(items), chunksize=1)


def validate_log(module, cfg, events, wd, env=None, timeout=3600):
    """One multi-step trace: the spec consumes the event log step by step and prints a single
    verdict line "V 1 <verdict>".  Returns (verdict, states, transitions)."""
    path = os.path.join(wd, "log-%s.ndjson" % module)
    write_ndjson(path, events)
    e = dict(env or {})
    e["TRACES"] = path
    r = tlc(module, cfg, wd, env=e, timeout=timeout, workers=1)
    vs = r.printed("V")
    if len(vs) != 1:
        raise MachineryError("%s: expected one verdict, got %r" % (module, vs[:3]))
    return vs[0].partition(" ")[2], r.distinct, r.generated
