"""C11 — transform strings and affine algebra follow the SVG specification
(spec/TransformGrammar.tla, spec/Affine.tla, spec/TraceTransform.tla)."""
import itertools
import json
import random

from . import common

NUMS = ["3", "-2", "0.5", "1.5", ".5", "1e1", "-1E0", "2.50", "+4", "10", "0", "-0.25", "2.5E1", "1E-1"]
ANGLES = ["90", "180", "270", "-90", "450", "0", "9e1", "90.0", "+180"]
SKEWS = ["45", "-45", "0", "4.5e1"]
ASEP = [",", " ", " , ", ", ", "\t", "  "]
TSEP = [" ", ",", " , ", "\n", ", "]
ALIGNS = ["none", "xMinYMin", "xMidYMin", "xMaxYMin", "xMinYMid", "xMidYMid", "xMaxYMid", "xMinYMax", "xMidYMax", "xMaxYMax"]


def gen_op(rng):
    name = rng.choice(["matrix", "translate", "scale", "rotate", "skewX", "skewY", "translate", "scale", "rotate"])
    if name == "matrix":
        args = [rng.choice(NUMS) for _ in range(6)]
    elif name in ("translate", "scale"):
        args = [rng.choice(NUMS) for _ in range(rng.choice([1, 2]))]
    elif name == "rotate":
        args = [rng.choice(ANGLES)] + ([rng.choice(["3", "-2", "8", "0"]) for _ in range(2)] if rng.random() < 0.5 else [])
    else:
        args = [rng.choice(SKEWS)]
    sp1 = rng.choice(["", "", " "])
    sp2 = rng.choice(["", "", " "])
    sp3 = rng.choice(["", "", " "])
    body = args[0]
    for a in args[1:]:
        body += rng.choice(ASEP) + a
    return name + sp1 + "(" + sp2 + body + sp3 + ")"


def gen_list(rng, nmax):
    n = rng.choice(list(range(1, nmax + 1)))
    s = gen_op(rng)
    for _ in range(n - 1):
        s += rng.choice(TSEP) + gen_op(rng)
    return rng.choice(["", "", " "]) + s + rng.choice(["", "", " "])


def mat_out(a, scale=1000):
    vals = [v * scale for v in a]
    if any(abs(v) > 2e8 or v != v for v in vals):
        return None
    return [int(round(v)) for v in vals]


def parse_job(s):
    from picosvg.svg_transform import Affine2D
    rec = {"kind": "parse", "s": list(s)}
    try:
        m = mat_out(Affine2D.fromstring(s), scale=100)
        if m is None:
            return None
        rec["r"] = {"k": "ok", "m": m}
    except Exception as e:  # noqa
        rec["r"] = {"k": "exc", "t": type(e).__name__, "m": []}
    return rec


def imat(rng):
    return [rng.randrange(-2, 3) for _ in range(4)] + [rng.randrange(-3, 4) for _ in range(2)]


def exact(a):
    r = [int(round(v)) for v in a]
    if any(abs(v - w) > 1e-9 for v, w in zip(a, r)):
        return None
    return r


def algebra_jobs(rng, n):
    from picosvg.svg_transform import Affine2D
    recs = []
    for _ in range(n):
        m, k = imat(rng), imat(rng)
        r = exact(Affine2D(*m) @ Affine2D(*k))
        recs.append({"kind": "mul", "m": m + [1], "n": k + [1], "r": (r + [1]) if r else [0] * 7})
    for _ in range(n):
        ms = [imat(rng) for _ in range(rng.choice([1, 2, 3]))]
        p = [rng.randrange(-5, 6), rng.randrange(-5, 6)]
        c = Affine2D.compose_ltr([Affine2D(*m) for m in ms])
        r = exact(c)
        q = exact(c.map_point(tuple(p)))
        recs.append({"kind": "ltr", "ms": [m + [1] for m in ms], "r": (r + [1]) if r else [0] * 7, "p": p,
                     "q": (q + [1]) if q else [0, 0, 0]})
    for _ in range(n):
        m = imat(rng)
        det = m[0] * m[3] - m[1] * m[2]
        # the same integer matrix at several magnitudes (m / k): non-degenerate however small
        k = rng.choice([1, 1, 10, 1000, 100000, 10 ** 8, 10 ** 9, 10 ** 12])
        inv = Affine2D(*[v / k for v in m]).inverse()
        # exact inverse = (k adj(A) / det, -adj(A) T / det): inverse x |det| is integral
        r = None
        big = k > 100000
        if det:
            sc = [v * abs(det) for v in inv]
            if big:
                # determinants down to 1e-24: hand the spec the linear part divided by k (it then is the
                # inverse of the integer matrix itself; the translation part does not depend on k)
                sc = [v / k for v in sc[:4]] + sc[4:]
            r = [int(round(v)) for v in sc]
            if any(abs(v - w) > 1e-6 * max(1.0, abs(w)) for v, w in zip(sc, r)):
                r = None
        recs.append({"kind": "inv", "m": m + [1 if big else k], "det": det, "r": r if r else [0] * 6})
    return recs


def r2r_jobs(rng, n, exhaustive=False):
    from picosvg.svg_transform import Affine2D
    from picosvg.geometric_types import Rect
    rects = [(x, y, w, h) for x in (-1, 0, 3) for y in (-1, 0, 3) for w in (1, 2, 4) for h in (1, 2, 4)]
    combos = [(s, d, a, ms) for s in rects for d in rects for a in ALIGNS for ms in (0, 1, 2)]
    if not exhaustive:
        combos = rng.sample(combos, n)
    recs = []
    for s, d, a, ms in combos:
        par = a + {0: " meet", 1: " slice", 2: ""}[ms]
        rec = {"kind": "r2r", "src": list(s), "dst": list(d), "align": a, "slice": 1 if ms == 1 else 0}
        try:
            m = mat_out(Affine2D.rect_to_rect(Rect(*s), Rect(*d), par))
            rec["r"] = {"k": "ok", "m": m}
        except Exception as e:  # noqa
            rec["r"] = {"k": "exc", "t": type(e).__name__, "m": []}
        recs.append(rec)
    return recs


def dec_jobs(rng, n):
    from picosvg.svg_transform import Affine2D
    recs = []
    for _ in range(n):
        m = imat(rng)
        if m[0] * m[3] - m[1] * m[2] == 0:
            continue
        for which in ("decompose_scale", "decompose_translation"):
            rec = {"kind": "dec", "m": m + [1], "which": which, "a": [], "b": []}
            try:
                a, b = getattr(Affine2D(*m), which)()
                ma, mb = mat_out(a), mat_out(b)
                if ma and mb:
                    rec["a"], rec["b"] = ma, mb
            except Exception:  # noqa
                pass
            recs.append(rec)
    return recs


def rt_jobs(rng, n):
    from picosvg.svg_transform import Affine2D
    recs = []
    pool = [0, 1, -1, 2, 0.5, -2.5, 10, 0.25, 3, 100, -0.125, 1.5]
    for _ in range(n):
        vals = [rng.choice(pool) for _ in range(6)]
        u = rng.random()
        if u < 0.3:
            vals[:4] = [1, 0, 0, 1]
        elif u < 0.55:
            # nearly a translation: unit diagonal with one or two shear entries
            vals[0], vals[3] = 1, 1
            vals[1] = rng.choice([0, 0, 0.5, -2.5, 3])
            vals[2] = rng.choice([0, 0, 0.25, -1, 2])
        if rng.random() < 0.15:
            # values Python prints in exponent form (mantissa with a fraction, exponent ending in 0)
            vals[rng.randrange(6)] = rng.choice([2.5e-10, -1.5e-20, 3.25e-30, 1.5e-10, 7.5e-100])
        m = Affine2D(*vals)
        s = m.tostring()
        rec = {"kind": "rt", "m": [int(v * 1000) for v in vals] + [1000], "s": list(s)}
        try:
            rec["r"] = {"k": "ok", "m": mat_out(Affine2D.fromstring(s))}
        except Exception as e:  # noqa
            rec["r"] = {"k": "exc", "t": type(e).__name__, "m": []}
        recs.append(rec)
    return recs


def run(out, tier):
    rng = random.Random(common.seed())
    wd = common.workdir("c11")
    try:
        quick = tier == "quick"
        strings = set()
        while len(strings) < (6000 if quick else 120000):
            strings.add(gen_list(rng, 3 if quick else 5))
        # every op alone with every number form / separator
        for a in NUMS:
            for b in NUMS:
                for sep in ASEP:
                    strings.add("translate(%s%s%s)" % (a, sep, b))
                    strings.add("scale(%s%s%s)" % (a, sep, b))
        for ang in ANGLES:
            strings.add("rotate(%s)" % ang)
            strings.add("rotate(%s 3 -2)" % ang)
        # non-conforming neighbours
        for s in list(strings)[:800]:
            i = rng.randrange(len(s))
            strings.add(s[:i] + rng.choice([")", "(", "x", ",", "", "e", "-"]) + s[i + 1:])
        srcs = sorted(strings)
        recs = [r for r in (parse_job(s) for s in srcs) if r is not None]
        recs += algebra_jobs(rng, 2500 if quick else 60000)
        recs += r2r_jobs(rng, 4000 if quick else 60000)
        recs += dec_jobs(rng, 800 if quick else 20000)
        recs += rt_jobs(rng, 1500 if quick else 30000)
        verdicts, st, tr = common.validate_traces("TraceTransform", "TraceTransform.cfg", recs, wd, chunk=100000)
        cov = out.coverage
        cov["states"] += st
        cov["transitions"] += tr
        cov["traces_validated_against_impl"] += len(recs)
        cov["evaluations"] += len(recs)
        hist = {}
        for v in verdicts:
            hist[v] = hist.get(v, 0) + 1
        cov["parts"]["verdict_histogram"] = hist
        cov["distinct_nontrivial"] = sum(n for v, n in hist.items() if v in (
            "ok:parse", "ok:mul", "ok:ltr", "ok:inv", "ok:r2r", "ok:dec", "ok:roundtrip"))
        cov["rule"] = ("transform lists of 1-%d operations generated from the SVG transform grammar (every "
                       "lexical number form, separator and spacing choice; exact domain: any decimals for "
                       "matrix/translate/scale, multiples of 90 degrees for rotate, 0/+-45 for skews) plus "
                       "single-character mutations; integer matrix pairs/triples for @, compose_ltr, map_point, "
                       "inverse; rectangle pairs x 10 alignments x meet/slice/omitted for rect_to_rect; scale and "
                       "translation decompositions; tostring/fromstring round trips" % (3 if quick else 5))
        for r, v in zip(recs, verdicts):
            if v in ("ok:parse", "ok:r2r") and len(cov["samples"]) < 3 and not any(
                    s.get("verdict") == v for s in cov["samples"]):
                cov["samples"].append({"trace": {k: ("".join(x) if k == "s" else x) for k, x in r.items()},
                                       "verdict": v})
        for want in ("ok:parse", "ok:mul", "ok:ltr", "ok:inv", "ok:r2r", "ok:dec", "ok:roundtrip"):
            if not hist.get(want):
                raise common.MachineryError("vacuous run, no %s: %r" % (want, hist))
        # the algebraic laws as polynomial identities over Int (valid over the reals): TLAPS + Z3
        import os, re, shutil, subprocess
        pdir = os.path.join(wd, "proofs")
        os.makedirs(pdir)
        shutil.copy(os.path.join(common.SPEC, "proofs", "AffineLaws.tla"), pdir)
        try:
            p = subprocess.run(["tlapm", "--cleanfp", "AffineLaws.tla"], cwd=pdir, stdout=subprocess.PIPE,
                               stderr=subprocess.STDOUT, text=True, timeout=900)
            m = re.search(r"All (\d+) obligations proved", p.stdout)
            cov["obligations"] = int(m.group(1)) if m else 0
            cov["discharged"] = int(m.group(1)) if m else 0
            cov["checker_cmd"] = "tlapm --cleanfp spec/proofs/AffineLaws.tla"
            cov["trusted_base"] = ["tlapm 1.6.0-pre", "Z3 back end", "SANY"]
            if not m:
                raise common.MachineryError("TLAPS did not discharge AffineLaws.tla:\n" + p.stdout[-1500:])
        except (OSError, subprocess.TimeoutExpired) as e:
            raise common.MachineryError("tlapm failed: %s" % e)
        for r, v in zip(recs, verdicts):
            if v.startswith("BAD"):
                w = {k: ("".join(x) if k == "s" else x) for k, x in r.items()}
                out.violation("C11/" + v.split(":", 1)[1], "TLC rejected trace: " + v, w)
    finally:
        common.cleanup(wd)


def replay(path):
    print(json.load(open(path))["witness"])
    return 0
