"""C09 — rewriting shapes and path data never changes the curve they describe.

Spec: spec/PathSem.tla (SVG path semantics, Denote), spec/TracePath.tla (trace judge).
The driver enumerates command sequences / shapes, calls the real rewrites, records results.
"""
import itertools
import random

from . import common

CMDS = "MmZzLlHhVvCcSsQqTtAa"
ARITY = dict(M=2, Z=0, L=2, H=1, V=1, C=6, S=4, Q=4, T=2, A=7)
SC = 1000

# a fixed pool of small lattice numbers, consumed cyclically (distinct-ish points)
POOL = [3, 1, 4, -2, 5, 9, -3, 6, 2, 7, -1, 8, 1, -4, 5, 3, -2, 6, 4, 2, 7, -5, 1, 3]


def build(letters, scheme, lead):
    """command letters (after the initial moveto) -> exploded command list with int args."""
    k = [0]

    def nxt():
        v = POOL[k[0] % len(POOL)]
        k[0] += 1
        return v

    cmds = [(lead, (2, 1) if scheme != 1 else (0, 0))]
    start = (2, 1) if scheme != 1 else (0, 0)
    cur = list(start)
    sub = list(start)
    n = len(letters)
    for idx, c in enumerate(letters):
        ar = ARITY[c.upper()]
        if scheme == 1:  # coincident / zero-length
            if c.islower():
                args = [0] * ar
            else:
                args = []
                for j in range(ar):
                    args.append(cur[j % 2])
                if c.upper() == "H":
                    args = [cur[0]]
                elif c.upper() == "V":
                    args = [cur[1]]
            if c.upper() == "A":
                args[0:5] = [2, 3, 0, 0, 1]
                if idx % 2:
                    args[0] = 0
        else:
            args = [nxt() for _ in range(ar)]
            if c.upper() == "A":
                args[0:5] = [abs(args[0]) + 1, abs(args[1]) + 1, (30 if idx % 2 else 0),
                             idx % 2, (idx // 2) % 2]
            if scheme == 2 and idx == n - 1 and ar >= 1:  # return to subpath start
                if c.upper() == "H":
                    args = [sub[0] - (cur[0] if c.islower() else 0)]
                elif c.upper() == "V":
                    args = [sub[1] - (cur[1] if c.islower() else 0)]
                elif ar >= 2:
                    args[-2] = sub[0] - (cur[0] if c.islower() else 0)
                    args[-1] = sub[1] - (cur[1] if c.islower() else 0)
        cmds.append((c, tuple(args)))
        # track current point (only needs end points; uses the SVG rule directly on ints)
        u = c.upper()
        if u == "Z":
            cur = list(sub)
        elif u == "H":
            cur[0] = args[0] + (cur[0] if c.islower() else 0)
        elif u == "V":
            cur[1] = args[0] + (cur[1] if c.islower() else 0)
        else:
            cur = [args[-2] + (cur[0] if c.islower() else 0), args[-1] + (cur[1] if c.islower() else 0)]
            if u == "M":
                sub = list(cur)
    return cmds


def has_closing_arc(cmds):
    """an arc whose end point is (in exact arithmetic) its start point: omitted by SVG F.6.2, but in
    floating point the two differ by an ulp and a whole ellipse is the honest answer of any double-based
    consumer - ill-conditioned, outside what an exact spec can judge"""
    cur, sub = [0, 0], [0, 0]
    for c, args in cmds:
        u = c.upper()
        rel = c.islower()
        if u == "Z":
            cur = list(sub)
            continue
        if u == "H":
            nxt = [args[0] + (cur[0] if rel else 0), cur[1]]
        elif u == "V":
            nxt = [cur[0], args[0] + (cur[1] if rel else 0)]
        else:
            nxt = [args[-2] + (cur[0] if rel else 0), args[-1] + (cur[1] if rel else 0)]
        if u == "A" and nxt == cur:
            return True
        cur = nxt
        if u == "M":
            sub = list(cur)
    return False


def dstr(cmds):
    return " ".join(c + " ".join(str(a) for a in args) for c, args in cmds)


def enc(cmds, sc=SC, exact=True):
    out = []
    for c, args in cmds:
        vs = []
        for i, a in enumerate(args):
            if c in "Aa" and i in (2, 3, 4):  # rotation / flags: unscaled integers
                vs.append(int(round(a)))
                continue
            v = a * sc
            if not (abs(v) < 2 ** 31 - 2):      # TLC has 32-bit integers (also catches inf / nan)
                return None
            r = int(round(v))
            if exact and abs(v - r) > 1e-6:
                return None
            vs.append(r)
        out.append([c, vs])
    return out


def outcome(fn, exact=True):
    try:
        cmds = list(fn())
    except Exception as e:  # noqa
        return {"k": "exc", "t": type(e).__name__}
    e = enc(cmds, exact=exact)
    if e is None:
        return {"k": "exc", "t": "inexact"}
    return {"k": "ok", "c": e}


def path_trace(cmds, dx=3, dy=-2):
    from picosvg.svg_types import SVGPath

    d = dstr(cmds)
    o = {}
    o["absolute"] = outcome(lambda: SVGPath(d=d).absolute())
    o["relative"] = outcome(lambda: SVGPath(d=d).relative())
    o["absolute_moveto"] = outcome(lambda: SVGPath(d=d).absolute_moveto())
    o["explicit_lines"] = outcome(lambda: SVGPath(d=d).explicit_lines())
    o["expand_shorthand"] = outcome(lambda: SVGPath(d=d).expand_shorthand())
    o["arcs_to_cubics"] = outcome(lambda: SVGPath(d=d).arcs_to_cubics(), exact=False)
    o["as_cmd_seq"] = outcome(lambda: SVGPath(d=d).as_cmd_seq(), exact=False)
    o["move"] = outcome(lambda: SVGPath(d=d).move(dx, dy))
    try:
        pieces = SVGPath(d=d).subpaths()
        o["subpaths_joined"] = outcome(lambda: SVGPath(d=" ".join(pieces)))
        ps = [enc(list(SVGPath(d=p))) for p in pieces]
        o["subpaths"] = {"k": "ok", "p": ps} if all(p is not None for p in ps) else {"k": "exc", "t": "inexact"}
    except Exception as e:  # noqa
        o["subpaths_joined"] = {"k": "exc", "t": type(e).__name__}
        o["subpaths"] = {"k": "exc", "t": type(e).__name__}
    return {"kind": "path", "c": enc(cmds), "dx": dx * SC, "dy": dy * SC, "o": o, "d": d}


def round_trace(rng, n):
    from picosvg.svg_types import SVGPath

    D = 4
    cmds = [("M", (rng.randrange(-99999, 99999) / 10 ** D, rng.randrange(-99999, 99999) / 10 ** D))]
    for _ in range(rng.randrange(1, 4)):
        c = rng.choice("LlCcQqHhVvTtSs")
        cmds.append((c, tuple(rng.choice([rng.randrange(-99999, 99999), rng.randrange(-20, 20) * 500 + 500,
                                          rng.randrange(-9, 9) * 10000 + 5000, 26750, 43500, 5, -5, 15, 25])
                              / 10 ** D for _ in range(ARITY[c.upper()]))))
    d = dstr(cmds)
    sc = 10 ** D
    try:
        res = list(SVGPath(d=d).round_floats(n))
        e = enc(res, sc=sc)
        o = {"k": "ok", "c": e} if e is not None else {"k": "exc", "t": "inexact"}
    except Exception as e:  # noqa
        o = {"k": "exc", "t": type(e).__name__}
    return {"kind": "round", "c": enc(cmds, sc=sc), "n": n, "sc": sc, "u": 10 ** (D - n), "o": o, "d": d}


def shape_traces():
    from picosvg import svg_types as T

    S = 2
    out = []

    def rec(tag, p, shape, ps):
        def f():
            return shape.as_path()
        try:
            cmds = list(shape.as_path())
            e = enc(cmds, sc=S)
            o = {"k": "ok", "c": e} if e is not None else {"k": "exc", "t": "inexact"}
        except Exception as ex:  # noqa
            o = {"k": "exc", "t": type(ex).__name__}
        out.append({"kind": "shape", "tag": tag, "p": ps, "o": o, "d": repr(p)})

    for x, y in [(0, 0), (-3, 2)]:
        for w in [0, 1, 4, 7, -2]:
            for h in [0, 2, 6, -1]:
                for rx in [None, 1, 2, 5]:
                    for ry in [None, 1, 3, 9]:
                        kw = dict(x=x, y=y, width=w, height=h)
                        if rx is not None:
                            kw["rx"] = rx
                        if ry is not None:
                            kw["ry"] = ry
                        rec("rect", kw, T.SVGRect(**kw),
                            {"x": x * S, "y": y * S, "w": w * S, "h": h * S,
                             "rx": -1 if rx is None else rx * S, "ry": -1 if ry is None else ry * S})
    for cx, cy in [(0, 0), (5, -4)]:
        for r in [0, 1, 3, 10, -2]:
            rec("circle", dict(cx=cx, cy=cy, r=r), T.SVGCircle(cx=cx, cy=cy, r=r),
                {"cx": cx * S, "cy": cy * S, "r": r * S})
            for ry in [0, 2, 7]:
                rec("ellipse", dict(cx=cx, cy=cy, rx=r, ry=ry), T.SVGEllipse(cx=cx, cy=cy, rx=r, ry=ry),
                    {"cx": cx * S, "cy": cy * S, "rx": r * S, "ry": ry * S})
    for a in [(0, 0, 1, 1), (2, 3, 2, 3), (-1, 5, 4, -6), (0, 0, 0, 7)]:
        rec("line", a, T.SVGLine(x1=a[0], y1=a[1], x2=a[2], y2=a[3]),
            {"x1": a[0] * S, "y1": a[1] * S, "x2": a[2] * S, "y2": a[3] * S})
    for pts in ["", "1,1", "0,0 4,0 4,3", "0,0 4,0 4,3 0,3", "1 2 3 4 5 6 7 8", "0,0 0,0 0,0", "1,2,3,4,5",
                "-1,-1 2,-3 5,5 -4,2 0,0"]:
        nums = [int(t) for t in pts.replace(",", " ").split()]
        rec("polyline", pts, T.SVGPolyline(points=pts), {"pts": [v * S for v in nums]})
        rec("polygon", pts, T.SVGPolygon(points=pts), {"pts": [v * S for v in nums]})
    return out


def gen_paths(tier, rng):
    seqs = []
    maxlen = 2 if tier == "quick" else 3
    for n in range(0, maxlen + 1):
        for t in itertools.product(CMDS, repeat=n):
            seqs.append("".join(t))
    extra = 2500 if tier == "quick" else 30000
    for _ in range(extra):
        n = rng.choice([3, 4, 4, 5, 8, 12]) if tier == "quick" else rng.choice([4, 4, 4, 5, 6, 9, 12])
        seqs.append("".join(rng.choice(CMDS) for _ in range(n)))
    seen = set()
    for s in seqs:
        for scheme in (0, 1, 2, 3):
            for lead in "Mm":
                key = (s, scheme, lead)
                if key in seen:
                    continue
                seen.add(key)
                if scheme == 3 and has_closing_arc(build(s, 2, lead)):
                    continue
                if scheme == 3:
                    # tenths: the float sums along the path miss the subpath start by an ulp, which is
                    # what the library's "snap the end point onto the start" code exists for
                    yield [(c, tuple(a if (c in "Aa" and i in (2, 3, 4)) else a / 10 for i, a in enumerate(args)))
                           for c, args in build(s, 2, lead)]
                else:
                    yield build(s, scheme, lead)


def run(out, tier):
    rng = random.Random(common.seed())
    wd = common.workdir("c09")
    try:
        recs = []
        for cmds in gen_paths(tier, rng):
            recs.append(path_trace(cmds))
        npath = len(recs)
        for n in range(0, 4):
            for _ in range(300 if tier == "quick" else 5000):
                recs.append(round_trace(rng, n))
        recs += shape_traces()
        slim = [{k: v for k, v in r.items() if k != "d"} for r in recs]
        verdicts, st, tr = common.validate_traces("TracePath", "TracePath.cfg", slim, wd, chunk=20000)
        cov = out.coverage
        cov["states"] += st
        cov["transitions"] += tr
        cov["traces_validated_against_impl"] += len(recs)
        cov["evaluations"] += npath * 10 + (len(recs) - npath)
        hist = {}
        for v in verdicts:
            hist[v] = hist.get(v, 0) + 1
        cov["parts"]["verdict_histogram"] = hist
        cov["distinct_nontrivial"] = sum(n for v, n in hist.items()
                                         if v in ("ok:all", "ok:round", "ok:shape"))
        cov["drift"] = sum(n for v, n in hist.items() if v.startswith("drift") or "exception" in v)
        cov["exhaustive"] = True
        cov["rule"] = ("every command sequence of length <= %d after the initial moveto over the 20 "
                       "path commands x 4 argument schemes (distinct lattice points / coincident and "
                       "zero-length / return to subpath start / the same in tenths, where float sums miss "
                       "the start by an ulp) x leading M|m, plus seeded longer "
                       "sequences; each through absolute, relative, absolute_moveto, explicit_lines, "
                       "expand_shorthand, arcs_to_cubics, as_cmd_seq, subpaths, move; rounding cases; "
                       "basic-shape parameter grid. non-trivial = TLC compared Denote(in) with "
                       "Denote(out) for all rewrites without an exception"
                       % (2 if tier == "quick" else 3))
        for want in ("ok:all", "ok:round", "ok:shape"):
            for r, v in zip(recs, verdicts):
                if v == want:
                    cov["samples"].append({"kind": r["kind"], "input": r["d"], "verdict": v})
                    break
        if hist.get("ok:all", 0) < npath // 2 or not hist.get("ok:shape") or not hist.get("ok:round"):
            raise common.MachineryError("vacuous run: %r" % hist)
        for r, v in zip(recs, verdicts):
            if v.startswith("BAD"):
                out.violation(classify(r, v), "TLC rejected trace: " + v,
                              {"kind": r["kind"], "input": r["d"], "verdict": v})
        out.assumptions += ["numbers are scaled to integers by the driver (x1000; x2 for shapes; "
                            "x10^4 for rounding); arc-to-cubic control points are judged in C12"]
    finally:
        common.cleanup(wd)


def classify(r, v):
    key = "C09/" + v
    if r["kind"] == "shape" and v == "BAD:shape:rect":
        p = r["p"]
        if (p["rx"] == 0) != (p["ry"] == 0):
            key += "/explicit-zero-radius"
    return key


def replay(path):
    import json

    w = json.load(open(path))["witness"]
    print(w)
    return 0
