"""Concretiser (ADoc -> SVG text) and projection (picosvg output text -> layers for TLC).

Neither decides anything.  The concretiser writes exactly what the abstract document says;
the projection flattens the restricted output syntax into integer polygons (1/64 unit) and
copies paints/opacities/group structure.  It uses its own tokenizer for path data (never
picosvg's parser).
"""
import math
import re

from lxml import etree

SVGNS = "http://www.w3.org/2000/svg"
XLINK = "http://www.w3.org/1999/xlink"
U64 = 64


# ------------------------------------------------------------------------- concretiser
def num(v):
    if isinstance(v, float) and v.is_integer():
        v = int(v)
    return str(v)


def alpha_str(e):
    if e == -1:
        return "0"
    if e < -1:   # deliberately out of range: SVG clamps opacities to [0, 1]
        return {-2: "1.5", -3: "-0.25", -4: "2"}[e]
    if e >= 10:  # non-dyadic values (structural foci only; the rendering semantics never sees them)
        return {10: "0.7", 11: "0.1", 12: "0.3"}[e]
    return num(2.0 ** -e)


def tf_str(ops):
    out = []
    for op in ops:
        k = op[0]
        if k == "translate":
            out.append("translate(%d,%d)" % (op[1], op[2]))
        elif k == "scale":
            sx, sy = op[1] / op[3], op[2] / op[3]
            out.append("scale(%s)" % num(sx) if sx == sy else "scale(%s %s)" % (num(sx), num(sy)))
        elif k == "rotate":
            out.append("rotate(%d)" % op[1] if (op[2], op[3]) == (0, 0)
                       else "rotate(%d %d %d)" % (op[1], op[2], op[3]))
        elif k in ("skewX", "skewY"):
            out.append("%s(%d)" % (k, op[1]))
        elif k == "matrix":
            out.append("matrix(%s)" % " ".join(str(x) for x in op[1:]))
        elif k == "matrixq":
            out.append("matrix(%s)" % " ".join(num(x / op[7]) for x in op[1:7]))
        else:
            raise ValueError(op)
    return " ".join(out)


def attr_value(name, v):
    if name in ("opacity", "fill-opacity", "stroke-opacity", "stop-opacity"):
        return alpha_str(v)
    if name in ("transform", "gradientTransform"):
        return tf_str(v)
    if name == "clip-path":
        return "url(#%s)" % v
    if name == "stroke-dasharray":
        return ",".join(str(x) for x in v) if v else "none"
    if name in ("x1", "y1", "x2", "y2", "cx", "cy", "r", "fx", "fy", "fr") and isinstance(v, list):
        n, d, pct = v
        return (num(n / d) + "%") if pct else num(n / d)
    if isinstance(v, list):
        return " ".join(str(x) for x in v)
    return str(v)


MICRO_TAGS = ("g", "rect", "line", "polygon", "polyline")


def attrs_xml(at, extra=(), micro=1):
    parts = list(extra)
    style = []
    for name, v, via in at:
        if name == "fillref":      # bookkeeping of the abstract document, not an SVG attribute
            continue
        if micro != 1 and name in ("stroke-width", "stroke-dashoffset"):
            s = num(v / micro)
        elif micro != 1 and name == "stroke-dasharray":
            s = ",".join(num(x / micro) for x in v) if v else "none"
        elif micro != 1 and name in ("transform", "clip-path"):
            raise ValueError("micro documents carry no inner transforms or clips")
        else:
            s = attr_value(name, v)
        if via:
            style.append("%s:%s" % (name, s))
        else:
            # a duplicated attribute name would be malformed XML: later one wins in the ADoc
            parts = [(n, x) for n, x in parts if n != name] + [(name, s)]
    if style:
        parts.append(("style", ";".join(style)))
    return "".join(' %s="%s"' % (n, x) for n, x in parts)


def geom_attrs(nd, micro=1):
    t, g = nd["tag"], nd["g"]
    if micro != 1:
        if t not in MICRO_TAGS:
            raise ValueError("micro documents hold straight-segment shapes and groups only")
        if t in ("polygon", "polyline"):
            return [("points", " ".join("%s,%s" % (num(g[i] / micro), num(g[i + 1] / micro))
                                        for i in range(0, len(g), 2)))]
        g = [x / micro if x >= 0 or t == "line" else x for x in g]
    if t == "rect":
        a = [("x", g[0]), ("y", g[1]), ("width", g[2]), ("height", g[3])]
        if g[4] >= 0:
            a.append(("rx", g[4]))
        if g[5] >= 0:
            a.append(("ry", g[5]))
    elif t == "circle":
        a = [("cx", g[0]), ("cy", g[1]), ("r", g[2])]
    elif t == "ellipse":
        a = [("cx", g[0]), ("cy", g[1]), ("rx", g[2]), ("ry", g[3])]
    elif t == "line":
        a = [("x1", g[0]), ("y1", g[1]), ("x2", g[2]), ("y2", g[3])]
    elif t in ("polygon", "polyline"):
        a = [("points", " ".join("%d,%d" % (g[i], g[i + 1]) for i in range(0, len(g), 2)))]
    elif t == "path":
        a = [("d", " ".join(c[0] + " ".join(str(x) for x in c[1:]) for c in g))]
    elif t == "use":
        a = [("xlink:href", "#" + nd["ref"])]
        if g and (g[0] or g[1]):
            a += [("x", g[0]), ("y", g[1])]
    elif t == "svg":
        a = [("x", g[0]), ("y", g[1])]
        if g[2] >= 0:
            a.append(("width", g[2]))
        if g[3] >= 0:
            a.append(("height", g[3]))
        if g[4]:
            a.append(("viewBox", " ".join(str(x) for x in g[4])))
        if g[5]:
            a.append(("preserveAspectRatio", " ".join(x for x in g[5] if x)))
        if g[6]:
            a.append(("overflow", g[6]))
    else:
        a = []
    return [(n, num(v) if isinstance(v, float) else str(v)) for n, v in a]


def concretise(doc, flags=()):
    """ADoc -> SVG text.  flags: "ws" (inter-element whitespace), "xmldecl".
    A document with "micro": k (a power of two) is written in user units k times smaller inside one
    <g transform="scale(k)">: every length of the content (geometry, stroke-width, dashes) is divided by
    k.  By SVG 1.1 7.4/11.4 a uniform scaling of user space scales strokes with it, so the document
    MEANS what the same ADoc without "micro" means - that is what the TLA+ semantics evaluates - while
    the implementation has to stroke in the small units and magnify."""
    micro = doc.get("micro", 1)
    vb = doc.get("view", doc["vb"])
    foo = any(a[0].startswith("foo:") for nd in doc["nodes"] for a in nd["at"])
    out = ['<svg xmlns="%s" xmlns:xlink="%s"%s viewBox="%s"%s>' % (
        SVGNS, XLINK, ' xmlns:foo="http://example.com/foo"' if foo else "",
        " ".join(str(x) for x in vb), attrs_xml(doc.get("root", [])))]
    if micro != 1:
        out.append('<g transform="scale(%d)">' % micro)
    stack = []
    nodes = doc["nodes"]
    for i, nd in enumerate(nodes):
        while stack and stack[-1][0] >= nd["d"]:
            out.append("</%s>" % stack.pop()[1])
        extra = []
        if nd.get("id"):
            extra.append(("id", nd["id"]))
        extra += geom_attrs(nd, micro)
        nxt = nodes[i + 1]["d"] if i + 1 < len(nodes) else 0
        tag = nd["tag"]
        txt = nd.get("text")
        if tag == "#chars":
            out.append(nd.get("text", "x"))      # character data (only inside text content)
            continue
        if tag == "#comment":
            out.append("<!-- noise -->")
            continue
        if tag == "#pi":
            out.append("<?noise data?>")
            continue
        if tag in ("linearGradient", "radialGradient"):
            if nd.get("ref"):
                extra.append(("xlink:href", "#" + nd["ref"]))
            txt = "".join('<stop offset="%s" stop-color="%s"/>' % (num(o / 100), c) for o, c in nd["g"])
        elif tag == "foreign":
            tag = "foo:bar"
            extra.append(("xmlns:foo", "http://example.com/foo"))
        elif tag == "text" and not (nxt > nd["d"]):
            txt = "hello"
        elif tag == "style":
            txt = ".a{fill:red}"
        elif tag in ("title", "desc"):
            txt = "some words"
        if nxt > nd["d"] or txt:
            out.append("<%s%s>%s" % (tag, attrs_xml(nd["at"], extra, micro), txt or ""))
            stack.append((nd["d"], tag))
        else:
            out.append("<%s%s/>" % (tag, attrs_xml(nd["at"], extra, micro)))
    while stack:
        out.append("</%s>" % stack.pop()[1])
    if micro != 1:
        out.append("</g>")
    out.append("</svg>")
    if "ws" in flags:
        # inter-element whitespace only: inside text content white space is character data, not noise
        pieces, depth_in_text = [], 0
        for item in out:
            closing_text = item in ("</text>",)
            sep = "" if (depth_in_text > 0 and not False) else "\n  "
            if pieces and not (depth_in_text > 0):
                pieces.append("\n  ")
            pieces.append(item)
            if item.startswith("<text") and not item.endswith("/>"):
                depth_in_text += 1
            elif closing_text:
                depth_in_text -= 1
        text = "".join(pieces)
    else:
        text = "".join(out)
    if "xmldecl" in flags:
        text = '<?xml version="1.0" encoding="UTF-8"?>\n' + text
    return text


# --------------------------------------------------------------------------- projection
_URL = re.compile(r"^url\(#([^)]*)\)$")
_TOK = re.compile(r"([MLCQAZmlcqaz])|([-+]?(?:\d+\.?\d*|\.\d+)(?:[eE][-+]?\d+)?)")


def tokens(d):
    """restricted output syntax -> [(letter, [floats])]; raises on anything unexpected."""
    cmds = []
    pos = 0
    d = d.strip()
    for m in _TOK.finditer(d):
        gap = d[pos:m.start()]
        if gap.strip(" ,\n\t"):
            raise ValueError("unexpected %r in path data" % gap)
        pos = m.end()
        if m.group(1):
            cmds.append((m.group(1), []))
        else:
            if not cmds:
                raise ValueError("number before command")
            cmds[-1][1].append(float(m.group(2)))
    if d[pos:].strip(" ,\n\t"):
        raise ValueError("trailing %r" % d[pos:])
    return cmds


def flatten(d, steps=8):
    """absolute M L C Q Z path data -> list of closed contours [(x, y), ...] (floats)."""
    polys = []
    cur = None
    start = None
    pts = []
    ar = {"M": 2, "L": 2, "C": 6, "Q": 4, "Z": 0, "A": 7}
    for c, a in tokens(d):
        if c not in ar:
            raise ValueError("projection supports only absolute M L C Q A Z, got %s" % c)
        n = ar[c]
        groups = [a[i:i + n] for i in range(0, len(a), n)] if n else [[]]
        if n and (len(a) == 0 or len(a) % n):
            raise ValueError("bad arity for %s" % c)
        for gi, g in enumerate(groups):
            if c == "M" and gi == 0:
                if len(pts) > 1:
                    polys.append(pts)
                cur = (g[0], g[1])
                start = cur
                pts = [cur]
            elif c in ("L", "M"):
                cur = (g[0], g[1])
                pts.append(cur)
            elif c == "Q":
                x0, y0 = cur
                for k in range(1, steps + 1):
                    t = k / steps
                    mt = 1 - t
                    pts.append((mt * mt * x0 + 2 * mt * t * g[0] + t * t * g[2],
                                mt * mt * y0 + 2 * mt * t * g[1] + t * t * g[3]))
                cur = (g[2], g[3])
            elif c == "C":
                x0, y0 = cur
                for k in range(1, steps + 1):
                    t = k / steps
                    mt = 1 - t
                    pts.append((mt ** 3 * x0 + 3 * mt * mt * t * g[0] + 3 * mt * t * t * g[2] + t ** 3 * g[4],
                                mt ** 3 * y0 + 3 * mt * mt * t * g[1] + 3 * mt * t * t * g[3] + t ** 3 * g[5]))
                cur = (g[4], g[5])
            elif c == "A":
                pts += arc_points(cur[0], cur[1], g[0], g[1], g[2], g[3], g[4], g[5], g[6])
                cur = (g[5], g[6])
            elif c == "Z":
                if len(pts) > 1:
                    polys.append(pts)
                cur = start
                pts = [cur] if cur else []
    if len(pts) > 1:
        polys.append(pts)
    return polys


def arc_points(x0, y0, rx, ry, phi_deg, large, sweep, x, y, steps=24):
    """SVG 1.1 F.6 endpoint->centre conversion; points along the arc (excluding the start)."""
    if (x0, y0) == (x, y):
        return []
    rx, ry = abs(rx), abs(ry)
    if rx == 0 or ry == 0:
        return [(x, y)]
    phi = math.radians(phi_deg)
    cp, sp = math.cos(phi), math.sin(phi)
    dx, dy = (x0 - x) / 2, (y0 - y) / 2
    x1, y1 = cp * dx + sp * dy, -sp * dx + cp * dy
    lam = x1 * x1 / (rx * rx) + y1 * y1 / (ry * ry)
    if lam > 1:
        rx *= math.sqrt(lam)
        ry *= math.sqrt(lam)
    den = rx * rx * y1 * y1 + ry * ry * x1 * x1
    numr = max(rx * rx * ry * ry - den, 0.0)
    co = math.sqrt(numr / den) if den else 0.0
    if bool(large) == bool(sweep):
        co = -co
    cxp, cyp = co * rx * y1 / ry, -co * ry * x1 / rx
    cx = cp * cxp - sp * cyp + (x0 + x) / 2
    cy = sp * cxp + cp * cyp + (y0 + y) / 2
    t1 = math.atan2((y1 - cyp) / ry, (x1 - cxp) / rx)
    t2 = math.atan2((-y1 - cyp) / ry, (-x1 - cxp) / rx)
    dt = t2 - t1
    if sweep and dt < 0:
        dt += 2 * math.pi
    elif not sweep and dt > 0:
        dt -= 2 * math.pi
    pts = []
    for k in range(1, steps + 1):
        t = t1 + dt * k / steps
        ex, ey = rx * math.cos(t), ry * math.sin(t)
        pts.append((cp * ex - sp * ey + cx, sp * ex + cp * ey + cy))
    pts[-1] = (x, y)
    return pts


def quant(polys, u=U64):
    res = []
    for p in polys:
        flat = []
        for x, y in p:
            flat += [int(round(x * u)), int(round(y * u))]
        res.append(flat)
    return res


def alpha_exp(a):
    """alpha -> exponent e with |a - 2^-e| within the 3-digit rounding, else None."""
    if a <= 0:
        return -1
    # nearest power of two; the value may have been rounded to 3 digits twice on its way (once
    # before and once after a group opacity was multiplied in), hence 1.1e-3
    best = min(range(0, 12), key=lambda e: abs(a - 2.0 ** -e))
    return best if abs(a - 2.0 ** -best) <= 0.0011 else None


def local(tag):
    return etree.QName(tag).localname if isinstance(tag, str) else "#" + str(tag)


def _inv(m):
    a, b, c, d, e, f = m
    det = a * d - b * c
    if det == 0:
        return None
    ia, ib, ic, id_ = d / det, -b / det, -c / det, a / det
    return (ia, ib, ic, id_, -(ia * e + ic * f), -(ib * e + id_ * f))


def _mul(m, n):
    return (m[0] * n[0] + m[2] * n[1], m[1] * n[0] + m[3] * n[1], m[0] * n[2] + m[2] * n[3],
            m[1] * n[2] + m[3] * n[3], m[0] * n[4] + m[2] * n[5] + m[4], m[1] * n[4] + m[3] * n[5] + m[5])


def grad_info(gel, bbox, vb, dense, view=None):
    """output gradient element -> (paint string, grid of floor(256 t) / floor(256 t^2) or [])"""
    tag = local(gel.tag)
    a = gel.attrib
    stops = []
    for st in gel:
        if isinstance(st.tag, str) and local(st.tag) == "stop":
            stops.append("%d=%s" % (int(round(float(st.attrib.get("offset", "0").rstrip("%")) *
                                              (1 if st.attrib.get("offset", "0").endswith("%") else 100))),
                                    st.attrib.get("stop-color", "black")))
    if not stops:
        return None, [], []
    bb = a.get("gradientUnits", "objectBoundingBox") == "objectBoundingBox"

    def num_(name, dflt_pct, horiz=True):
        v = a.get(name)
        if v is None:
            v = "%g%%" % dflt_pct
        if v.endswith("%"):
            frac = float(v[:-1]) / 100
            vw = view or vb
            return frac if bb else frac * (vw[2] if horiz else vw[3])
        return float(v)

    m = (1, 0, 0, 1, 0, 0)
    if bb:
        m = (bbox[2] - bbox[0], 0, 0, bbox[3] - bbox[1], bbox[0], bbox[1])
    if a.get("gradientTransform"):
        t6 = _tf6(a["gradientTransform"])
        if len(t6) != 6:
            return "grad:unparsed-transform", [], []
        m = _mul(m, tuple(t6))
    inv = _inv(m)
    spread = a.get("spreadMethod", "pad")
    if tag == "linearGradient":
        kind = "linear"
        x1, y1, x2, y2 = num_("x1", 0), num_("y1", 0, False), num_("x2", 100), num_("y2", 0, False)
    else:
        cx, cy, r = num_("cx", 50), num_("cy", 50, False), num_("r", 50)
        fx = float(a["fx"]) if "fx" in a and not a["fx"].endswith("%") else (num_("fx", 50) if "fx" in a else cx)
        fy = float(a["fy"]) if "fy" in a and not a["fy"].endswith("%") else (num_("fy", 50, False) if "fy" in a else cy)
        fr = float(a.get("fr", "0").rstrip("%"))
        kind = "radial" if (abs(fx - cx) < 1e-9 and abs(fy - cy) < 1e-9 and fr == 0) else "radialf"
    paint = "grad:%s:%s:%s" % (kind, spread, ",".join(stops))
    grid = []
    gp = []
    if tag != "linearGradient" and abs(r) < 1e6:
        def up(x, y):
            return (m[0] * x + m[2] * y + m[4], m[1] * x + m[3] * y + m[5])
        c_, f_ = up(cx, cy), up(fx, fy)
        gp = [int(math.floor(c_[0] * 64 + 1e-7)), int(math.floor(c_[1] * 64 + 1e-7)),
              int(math.floor(f_[0] * 64 + 1e-7)), int(math.floor(f_[1] * 64 + 1e-7)),
              int(math.floor(r * r * (m[0] * m[0] + m[2] * m[2]) * 4 + 1e-7)),
              int(math.floor(r * r * (m[0] * m[1] + m[2] * m[3]) * 4 + 1e-7)),
              int(math.floor(r * r * (m[1] * m[1] + m[3] * m[3]) * 4 + 1e-7))]
        if any(abs(v) > 2 ** 30 for v in gp):
            gp = []
    if inv is None:
        return paint, [], gp
    if dense:
        pts = [((4 * i + 1) / 8, (4 * j + 2) / 8) for i in range(2 * (vb[0] - 2), 2 * (vb[0] + vb[2] + 2))
               for j in range(2 * (vb[1] - 2), 2 * (vb[1] + vb[3] + 2))]
    else:
        pts = [((8 * i + 2) / 8, (8 * j + 5) / 8) for i in range(vb[0] - 2, vb[0] + vb[2] + 2)
               for j in range(vb[1] - 2, vb[1] + vb[3] + 2)]
    for (px, py) in pts:
        qx = inv[0] * px + inv[2] * py + inv[4]
        qy = inv[1] * px + inv[3] * py + inv[5]
        val = None
        if kind == "linear":
            vx, vy = x2 - x1, y2 - y1
            vv = vx * vx + vy * vy
            if vv > 0:
                val = ((qx - x1) * vx + (qy - y1) * vy) / vv
        elif kind == "radial" and r > 0:
            val = ((qx - cx) ** 2 + (qy - cy) ** 2) / (r * r)
        if val is None or abs(val) > 3000:
            grid.append(-99999)
        else:
            grid.append(int(math.floor(val * 256 + 1e-7)))
    return paint, grid, gp


def project(svg_text, vb=(0, 0, 16, 16), dense=False, view=None):
    """picosvg output text -> {"layers": [...], "notes": [...]} for TraceRender / TraceGrad."""
    root = etree.fromstring(svg_text.encode("utf-8"))
    layers = []
    notes = []
    gid = [0]
    grads = {}
    for el in root.iter():
        if isinstance(el.tag, str) and local(el.tag) in ("linearGradient", "radialGradient") and el.attrib.get("id"):
            grads[el.attrib["id"]] = el

    def walk(el, grp):
        for ch in el:
            if not isinstance(ch.tag, str):
                continue
            t = local(ch.tag)
            if t == "defs":
                continue
            op = float(ch.attrib.get("opacity", "1"))
            if t == "g":
                gid[0] += 1
                e = alpha_exp(op)
                if e is None:
                    notes.append("inexact group opacity %r" % op)
                    e = 99
                if e == -1:
                    continue
                walk(ch, grp + ([[gid[0], e]] if e != 0 else []))
            elif t == "path":
                fill = ch.attrib.get("fill", "black")
                if fill == "none" or ch.attrib.get("display") == "none":
                    continue
                a = op * float(ch.attrib.get("fill-opacity", "1"))
                e = alpha_exp(a)
                if e is None:
                    notes.append("inexact path opacity %r" % a)
                    e = 99
                if e == -1:
                    continue
                polys = quant(flatten(ch.attrib.get("d", "")))
                if ch.attrib.get("transform") or ch.attrib.get("clip-path") or \
                        ch.attrib.get("stroke", "none") != "none":
                    notes.append("output path still carries transform/clip-path/stroke")
                    fill = "unflattened:" + fill
                xs = [v for pl in polys for v in pl[0::2]] or [0]
                ys = [v for pl in polys for v in pl[1::2]] or [0]
                tg, gp = [], []
                mu = _URL.match(fill.strip())
                if mu:
                    gel = grads.get(mu.group(1))
                    if gel is None:
                        fill = "dangling:" + fill
                    else:
                        fbb = [min(xs) / U64, min(ys) / U64, max(xs) / U64, max(ys) / U64]
                        fill, tg, gp = grad_info(gel, fbb, vb, dense, view or vb)
                        if fill is None:      # a gradient without stops paints nothing
                            continue
                layers.append({"polys": polys, "rule": ch.attrib.get("fill-rule", "nonzero"),
                               "pb": [[min(pl[0::2]), min(pl[1::2]), max(pl[0::2]), max(pl[1::2])] for pl in polys],
                               "paint": fill, "e": e, "grp": grp, "tg": tg, "gp": gp,
                               "bb": [min(xs), min(ys), max(xs), max(ys)]})
            else:
                notes.append("unexpected element <%s> in output" % t)
                layers.append({"polys": [], "rule": "nonzero", "paint": "unexpected:" + t, "e": 0,
                               "grp": grp, "bb": [0, 0, 0, 0], "tg": [], "pb": [], "gp": []})

    walk(root, [])
    return {"layers": layers, "notes": notes}


def convert(svg_text, **opts):
    """run the real conversion; returns ('ok', text) | ('exc', type, msg)"""
    from picosvg.svg import SVG

    try:
        return ("ok", SVG.fromstring(svg_text).topicosvg(**opts).tostring())
    except RecursionError as e:
        return ("exc", "RecursionError", "")
    except Exception as e:  # noqa
        return ("exc", type(e).__name__, str(e)[:300])


def generate_docs(focus, n, seedval, wd, max_nodes=6, max_depth=4, cfg_extra=""):
    """TLC -simulate on Build.tla; returns list of ADocs (dicts)."""
    import os
    from . import common

    cfg = "Build_%s_%d.cfg" % (focus, os.getpid())
    path = os.path.join(common.SPEC, cfg)
    with open(path, "w") as f:
        f.write('SPECIFICATION Spec\nCONSTANTS\n  Focus = "%s"\n  MaxNodes = %d\n  MaxDepth = %d\n'
                'INVARIANT WellFormed\nCHECK_DEADLOCK FALSE\n%s' % (focus, max_nodes, max_depth, cfg_extra))
    try:
        # simulation is single-threaded per worker; use several workers with distinct seeds
        r = common.tlc("Build", cfg, wd, simulate=max(1, n // 4), depth=max_nodes * 3 + 4, workers=4,
                       seedval=seedval * 7919 + 1, timeout=1200, heap="2g")
        docs = r.json_lines("CASE")
        # the workers print in scheduling order: make the order a function of the seed only
        import json as _json
        import random as _random
        docs.sort(key=lambda d: _json.dumps(d, sort_keys=True))
        _random.Random(seedval).shuffle(docs)
        res_all = [r]
    finally:
        os.unlink(path)
    return docs, res_all


# ------------------------------------------------------------- structural projection (C01/C08)

def structure(svg_text):
    """output text -> flat pre-order node list with raw lexemes (for PicoGrammar.tla)."""
    parser = etree.XMLParser(remove_comments=False, remove_pis=False, resolve_entities=False)
    root = etree.fromstring(svg_text.encode("utf-8"), parser)
    nodes = []
    nrefs = [0]

    def text_node(depth, s):
        if s and s.strip():
            nodes.append({"d": depth, "k": "text", "ns": "svg", "tag": "#text", "at": [], "toks": [],
                          "fillref": [], "gnum": [], "txt": list(s.strip())})

    def walk(el, depth):
        if el.tag is etree.Comment:
            nodes.append({"d": depth, "k": "comment", "ns": "svg", "tag": "#comment", "at": [],
                          "toks": [], "fillref": [], "gnum": [], "txt": []})
            return
        if el.tag is etree.ProcessingInstruction or not isinstance(el.tag, str):
            nodes.append({"d": depth, "k": "pi", "ns": "svg", "tag": "#pi", "at": [], "toks": [],
                          "fillref": [], "gnum": [], "txt": []})
            return
        q = etree.QName(el.tag)
        at = []
        for name, val in el.attrib.items():
            qa = etree.QName(name)
            pref = ""
            if qa.namespace:
                pref = "xlink" if qa.namespace == XLINK else "foreign"
            at.append([(pref + ":" if pref else "") + qa.localname, list(val), pref])
        toks = []
        if q.localname == "path" and "d" in el.attrib:
            try:
                for c, lex in raw_tokens(el.attrib["d"]):
                    toks.append([c, [list(x) for x in lex]])
            except ValueError:
                toks = [["?", []]]
        fillref = []
        m = _URL.match(el.attrib.get("fill", "").strip())
        if m:
            fillref = list(m.group(1))
            nrefs[0] += 1
        gnum = []
        if q.localname in ("linearGradient", "radialGradient"):
            for name in ("x1", "y1", "x2", "y2", "cx", "cy", "r", "fx", "fy", "fr"):
                if name in el.attrib:
                    try:
                        gnum.append([name, _micro(float(el.attrib[name]))])
                    except ValueError:
                        gnum.append([name, -2 ** 30])
            if "gradientTransform" in el.attrib:
                for k, v in enumerate(_tf6(el.attrib["gradientTransform"])):
                    gnum.append(["gt%d" % k, _micro(v)])
        nodes.append({"d": depth, "k": "el", "ns": "svg" if q.namespace == SVGNS else "other",
                      "tag": q.localname, "at": at, "toks": toks, "fillref": fillref, "gnum": gnum, "txt": []})
        text_node(depth + 1, el.text)
        for ch in el:
            walk(ch, depth + 1)
            text_node(depth + 1, ch.tail)

    walk(root, 0)
    return {"nodes": nodes}, nrefs[0]


def _micro(v):
    m = int(round(v * 10 ** 6))
    return m if abs(m) < 2 ** 30 else -2 ** 30


def _tf6(t):
    nums = [float(x) for x in re.findall(r"[-+]?(?:\d+\.?\d*|\.\d+)(?:[eE][-+]?\d+)?", t)]
    if t.strip().startswith("matrix") and len(nums) == 6:
        return nums
    if t.strip().startswith("translate") and len(nums) in (1, 2):
        return [1, 0, 0, 1, nums[0], nums[1] if len(nums) == 2 else 0]
    return [float("nan")] * 0


_RAW = re.compile(r"([A-Za-df-z])|([^A-Za-df-z\s,]+)")


def raw_tokens(d):
    """path data -> [(letter, [lexeme strings])] without interpreting the lexemes."""
    cmds = []
    for m in _RAW.finditer(d):
        if m.group(1):
            cmds.append((m.group(1), []))
        else:
            if not cmds:
                raise ValueError("number before command")
            cmds[-1][1].append(m.group(2))
    return cmds
