"""Observation function for Pipeline.tla: which kinds of non-picosvg content ("residues") a document
still contains.  Called from the "step" hook with the live SVG object; it must not modify it, so it
reads the shape cache when that is populated (pending edits live there) and the tree otherwise."""
import re

from lxml import etree

SVGNS = "http://www.w3.org/2000/svg"
SHAPES = {"rect", "circle", "ellipse", "line", "polyline", "polygon"}
KNOWN = SHAPES | {"svg", "defs", "g", "path", "use", "clipPath", "linearGradient", "radialGradient", "stop",
                  "symbol", "title", "desc", "metadata"}
NUM = re.compile(r"[-+]?(?:\d+\.?\d*|\.\d+)(?:[eE][-+]?\d+)?")


def _local(el):
    return etree.QName(el.tag).localname if isinstance(el.tag, str) else None


def _frac_digits(text):
    m = 0
    for lex in NUM.findall(text):
        if "e" in lex.lower():
            mant, _, ex = lex.lower().partition("e")
            f = len(mant.partition(".")[2]) - int(ex)
        else:
            f = len(lex.partition(".")[2])
        m = max(m, f)
    return m


def residues(svg, ndigits=3):
    from picosvg.svg_types import SVGPath
    from picosvg.svg import from_element

    root = svg.svg_root
    res = set()
    keep = None
    cached = dict((id(el), shapes) for el, shapes in (svg.elements or []))
    if not cached:
        # nothing pending: the shapes the library itself would read (inherited attributes included)
        try:
            keep = [c for c in svg.depth_first(resolve_clip_paths=False) if c.is_shape()]  # proxies stay alive
            cached = dict((id(c.element), (c.shape(),)) for c in keep)
        except Exception:  # noqa
            cached = {}
    shapes = []          # (element, shape dataclass or None)
    # content inside an unsupported element is opaque: it is dropped (or rejected) with it
    def walk(el):
        yield el
        if isinstance(el.tag, str):
            q_ = etree.QName(el.tag)
            if q_.namespace == SVGNS and (q_.localname not in KNOWN or
                                          (q_.localname == "symbol" and "id" in el.attrib)):
                return
        for c in el:
            yield from walk(c)

    for el in walk(root):
        if not isinstance(el.tag, str):
            res.add("noise")
            continue
        q = etree.QName(el.tag)
        name = q.localname
        if q.namespace != SVGNS:
            res.add("noise")
            continue
        if name not in KNOWN or (name == "symbol" and "id" in el.attrib):
            # (a symbol with an id is never instantiated by this library: it ends in an error or is dropped)
            res.add("unsupported")
            continue
        if any(etree.QName(a).namespace not in (None, "http://www.w3.org/1999/xlink") for a in el.attrib):
            res.add("noise")
        if name in ("title", "desc", "metadata") or (name == "symbol" and "id" not in el.attrib):
            res.add("noise")
        if el.attrib.get("style"):
            res.add("style")
        if name == "svg" and el is not root:
            res.add("nestedsvg")
        if name == "use":
            res.add("use")
        if name in ("clipPath", "symbol"):
            res.add("structure")
        if name in SHAPES or name == "path":
            for sh in cached.get(id(el), (None,)):
                shapes.append((el, sh))
        if name == "g":
            kids = [c for c in el if isinstance(c.tag, str)]
            at = dict(el.attrib)
            op = at.pop("opacity", None)
            if at:
                res.add("structure")
            try:
                o = float(op) if op is not None else 1.0
            except ValueError:
                o = 1.0
            if len(kids) < 2 or not (0 < o < 1):
                res.add("needlessgroup")
            if op is not None and _frac_digits(op) > ndigits:
                res.add("unrounded")
    defs = [c for c in root if isinstance(c.tag, str) and _local(c) == "defs"]
    first = next((c for c in root if isinstance(c.tag, str)), None)
    if len(defs) != 1 or first is None or _local(first) != "defs":
        res.add("structure")
    for d in defs:
        if any(isinstance(c.tag, str) and _local(c) not in ("linearGradient", "radialGradient") for c in d):
            res.add("structure")
    if any(a in root.attrib for a in ("fill", "stroke", "opacity", "transform", "clip-path", "style", "fill-rule",
                                      "fill-opacity", "display")):
        res.add("structure")
    used = set()
    for el, sh in shapes:
        if sh is None:
            try:
                sh = from_element(el)
            except Exception:  # noqa
                continue
        is_path = isinstance(sh, SVGPath)
        try:
            d = sh.d if is_path else sh.as_path().d
        except Exception:  # noqa
            d = ""
        at = {"transform": sh.transform, "clip-path": sh.clip_path, "stroke": sh.stroke,
              "fill-rule": sh.fill_rule, "style": sh.style, "fill": sh.fill}
        fo, op = sh.fill_opacity, sh.opacity
        try:
            paints = sh.might_paint()
        except Exception:  # noqa
            paints = True
        if not is_path:
            res.add("basicshape")
        if re.search(r"[HhVvSsTt]", d):
            res.add("shorthand")
        if re.search(r"[mlhvcsqta]", d):
            res.add("relative")
        if at["transform"] or at["clip-path"] or (at["stroke"] not in ("", "none")):
            res.add("structure")
        if at["style"]:
            res.add("style")
        if at["fill-rule"] == "evenodd":
            res.add("evenodd")
        if fo != 1.0 and at["stroke"] in ("", "none") and at["fill"] != "none":
            res.add("splitopacity")
        if _frac_digits(d) > ndigits or _frac_digits(repr(float(op))) > ndigits:
            res.add("unrounded")
        if paints is False:
            res.add("invisible")
        elif is_path:
            try:
                import copy
                for sub in sh.subpaths():
                    probe = copy.copy(sh)
                    probe.d = sub
                    if not probe.might_paint():
                        res.add("emptysubpath")
                        break
            except Exception:  # noqa
                pass
        m = re.match(r"^url\(#([^)]*)\)$", at["fill"] or "")
        if m:
            used.add(m.group(1))
    # users hidden inside unsupported subtrees count as users (the library counts them too)
    for el in root.iter():
        if isinstance(el.tag, str):
            m = re.match(r"^url\(#([^)]*)\)$", el.attrib.get("fill", ""))
            if m:
                used.add(m.group(1))
    for d in defs:
        for g in d:
            if isinstance(g.tag, str) and _local(g) in ("linearGradient", "radialGradient") \
                    and g.attrib.get("id") not in used:
                res.add("orphangradient")
    return sorted(res)
