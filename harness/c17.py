"""C17 — conversion always terminates with a picosvg or an exception, never a hang.

Resolve.tla is the model of use resolution; its initial states (every reference graph on N ids)
are enumerated and concretised; further adversarial documents (clip-path / gradient href chains and
cycles, dangling references, malformed values, DOCTYPE entities) come from small exhaustive
families.  Every document is converted under a watchdog with the hooks on; TraceResolve.tla judges.
"""
import itertools
import json
import os
import resource
import signal
import tempfile

from . import common, doc as D

NS = 'xmlns="http://www.w3.org/2000/svg" xmlns:xlink="http://www.w3.org/1999/xlink"'
WALL = 20          # seconds; such documents need ~10 ms
CANARY = "CANARY-7f3a-external-entity-content"


class Killed(BaseException):
    pass


def _alarm(signum, frame):
    raise Killed()


def convert_watched(job):
    kind, uses, svg = job
    from picosvg import _verif
    from picosvg.svg import SVG

    ev = {"rounds": [], "nclip": 0, "ngrad": 0, "first_done": False}

    def sink(name, f):
        if name == "use_round":
            if not ev["first_done"]:
                ev["rounds"].append(f["n_use"])
                if f["n_use"] == 0:
                    ev["first_done"] = True
        elif name == "clip_enter":
            ev["nclip"] += 1
        elif name == "grad_enter":
            ev["ngrad"] += 1

    _verif.install(sink)
    if not _verif.ENABLED:
        raise common.MachineryError("hooks are not enabled (PICOSVG_VERIF=1)")
    rec = {"kind": kind, "uses": uses, "rounds": [], "nclip": 0, "ngrad": 0, "end": "", "canary": 0,
           "out": {"nodes": []}}
    text = ""
    signal.signal(signal.SIGALRM, _alarm)
    signal.alarm(WALL)
    try:
        try:
            text = SVG.fromstring(svg).topicosvg().tostring()
            rec["end"] = "ok"
        except Killed:
            rec["end"] = "killed"
        except MemoryError:
            rec["end"] = "killed"
        except RecursionError as e:
            rec["end"] = "exc:RecursionError"
        except Exception as e:  # noqa
            rec["end"] = "exc:" + type(e).__name__
            text = str(e)
    except Killed:
        rec["end"] = "killed"
    finally:
        signal.alarm(0)
        _verif.install(None)
    rec["rounds"] = ev["rounds"][:64]
    rec["nclip"] = ev["nclip"]
    rec["ngrad"] = ev["ngrad"]
    if CANARY in text:
        rec["canary"] = 1
    if rec["end"] == "ok":
        try:
            rec["out"] = D.structure(text)[0]
        except Exception:  # noqa
            # returned normally, but the serialisation is not even well-formed XML: not a picosvg
            rec["out"] = {"nodes": [{"d": 0, "k": "el", "ns": "other", "tag": "not-well-formed-xml", "at": [],
                                     "toks": [], "fillref": [], "gnum": []}]}
    return rec


def _init_worker():
    try:
        resource.setrlimit(resource.RLIMIT_AS, (3 << 30, 3 << 30))
    except Exception:
        pass


def supervise(jobs, wd, nproc=None):
    """run the jobs in crash-tolerant worker subprocesses; a worker that dies (segfault, OOM kill)
    yields end = "crashed:<status>" for the document it was converting and is restarted after it"""
    import subprocess
    import sys

    nproc = nproc or min(common.NCPU, 16)
    shards = [jobs[k::nproc] for k in range(nproc)]
    here = os.path.dirname(os.path.abspath(__file__))

    def run_shard(k):
        shard = shards[k]
        path = os.path.join(wd, "c17-jobs-%d.json" % k)
        json.dump(shard, open(path, "w"))
        res = [None] * len(shard)
        start = 0
        env = dict(os.environ)
        env["PICOSVG_VERIF"] = "1"
        env["PYTHONPATH"] = os.path.join(common.REPO, "src")
        while start < len(shard):
            p = subprocess.run([sys.executable, os.path.join(here, "c17_worker.py"), path, str(start)],
                               env=env, stdout=subprocess.PIPE, stderr=subprocess.DEVNULL, text=True,
                               timeout=WALL * (len(shard) - start) + 120)
            cur = None
            for ln in p.stdout.splitlines():
                if ln.startswith("START "):
                    cur = int(ln.split()[1])
                elif ln.startswith("DONE "):
                    _, i, js = ln.split(" ", 2)
                    res[int(i)] = json.loads(js)
                    cur = None
            if p.returncode == 0 and cur is None:
                break
            if cur is None:
                raise common.MachineryError("C17 worker failed outside a conversion (rc=%s)" % p.returncode)
            res[cur] = {"kind": shard[cur][0], "uses": shard[cur][1], "rounds": [], "nclip": 0, "ngrad": 0,
                        "end": "crashed:%s" % p.returncode, "canary": 0, "out": {"nodes": []}}
            start = cur + 1
        return res

    parts = common.tmap(run_shard, range(nproc), n=nproc)
    recs = [None] * len(jobs)
    for k, part in enumerate(parts):
        for i, r in enumerate(part):
            recs[k + i * nproc] = r
    if any(r is None for r in recs):
        raise common.MachineryError("C17: missing results")
    return recs


def use_graph_doc(uses, deep=False):
    """uses[x][j-1] = number of <use href=#ij> inside element x (x = 0: the body); deep: the uses sit in
    a nested group of their container instead of being its direct children"""
    n = len(uses) - 1
    parts = ['<svg %s viewBox="0 0 16 16">' % NS, "<defs>"]
    for x in range(1, n + 1):
        inner = "".join('<use xlink:href="#i%d" x="%d"/>' % (j, j) * uses[x][j - 1] for j in range(1, n + 1))
        if deep and inner:
            inner = '<g><g fill="red">%s</g></g>' % inner
        parts.append('<g id="i%d"><rect x="%d" y="1" width="2" height="2"/>%s</g>' % (x, x, inner))
    parts.append("</defs>")
    parts.append("".join('<use xlink:href="#i%d" y="%d"/>' % (j, 3 * j) * uses[0][j - 1] for j in range(1, n + 1)))
    parts.append('<rect width="1" height="1"/></svg>')
    return "".join(parts)


def families(canary_path):
    """small exhaustive adversarial families (kind, svg)"""
    out = []
    rect = '<rect width="4" height="4"/>'
    for n in range(1, 5):
        for closing in ("cycle", "dangling", "end"):
            # clip-path chains c1 -> c2 -> ... -> cn -> (c1 | missing | nothing)
            cps = []
            for i in range(1, n + 1):
                nxt = "c%d" % (i + 1) if i < n else {"cycle": "c1", "dangling": "nope", "end": None}[closing]
                cps.append('<clipPath id="c%d"%s>%s</clipPath>' % (
                    i, ' clip-path="url(#%s)"' % nxt if nxt else "", rect))
            out.append(("clipchain", '<svg %s viewBox="0 0 9 9">%s<rect width="9" height="9" clip-path="url(#c1)"/></svg>'
                        % (NS, "".join(cps))))
            gs = []
            for i in range(1, n + 1):
                nxt = "g%d" % (i + 1) if i < n else {"cycle": "g1", "dangling": "nope", "end": None}[closing]
                gs.append('<linearGradient id="g%d"%s>%s</linearGradient>' % (
                    i, ' xlink:href="#%s"' % nxt if nxt else "",
                    '<stop offset="0" stop-color="red"/>' if i == n and closing == "end" else ""))
            for tf in ("", ' transform="translate(1,1)"'):
                out.append(("gradchain", '<svg %s viewBox="0 0 9 9"><defs>%s</defs><rect width="9" height="9" fill="url(#g1)"%s/></svg>'
                            % (NS, "".join(gs), tf)))
            # use chains through uses (use referencing use)
            us = []
            for i in range(1, n + 1):
                nxt = "u%d" % (i + 1) if i < n else {"cycle": "u1", "dangling": "nope", "end": "r"}[closing]
                us.append('<use id="u%d" xlink:href="#%s"/>' % (i, nxt))
            out.append(("usechain", '<svg %s viewBox="0 0 9 9"><defs><rect id="r" width="2" height="2"/></defs>%s</svg>'
                        % (NS, "".join(us))))
            # use inside a clipPath that is (transitively) its own target
            out.append(("clipuse", '<svg %s viewBox="0 0 9 9"><clipPath id="c1"><use xlink:href="#%s"/></clipPath>'
                        '<g id="t1" clip-path="url(#c1)">%s</g></svg>'
                        % (NS, {"cycle": "t1", "dangling": "nope", "end": "r"}[closing], '<rect id="r" width="3" height="3"/>')))
    # reference cycles whose links are written with blanks around the fragment (a lookup that trims must
    # trim in the cycle check too)
    for pad in ('#u1 ', ' #u1', '#u1\n'):
        out.append(("usechain", '<svg %s viewBox="0 0 9 9"><g id="u1"><rect width="2" height="2"/><use xlink:href="%s"/></g></svg>'
                    % (NS, pad.replace("\n", "&#10;"))))
        out.append(("usechain", '<svg %s viewBox="0 0 9 9"><g id="u1"><use xlink:href="#u2"/></g><g id="u2"><rect width="1" height="1"/>'
                    '<use xlink:href="%s"/></g></svg>' % (NS, pad.replace("\n", "&#10;"))))
    # almost well-formed paint / clip references with long ids (a regular expression must not backtrack
    # exponentially on them)
    for n_ in (26, 34, 48):
        lid = ("Figma-gradient_id.0123456789-abcdefghijklmnopqrstuvwxyz-ABCDEF" * 2)[:n_]
        for v in ('fill="url(#%s) red"', 'fill="url(#%s )"', 'fill="url(#%s"', 'fill="url(#%s);"', 'clip-path="url(#%s) "'):
            out.append(("malformed", '<svg %s viewBox="0 0 9 9"><defs><linearGradient id="%s"><stop offset="0" stop-color="red"/>'
                        '</linearGradient></defs><rect width="4" height="4" %s/></svg>' % (NS, lid, v % lid)))
    bad_vals = ['transform="rotate(x)"', 'opacity="abc"', 'transform="matrix(1 2 3)"', 'fill-opacity=""',
                'stroke-width="wide" stroke="red"', 'clip-path="url(c)"', 'fill="url(#"', 'style="fill"',
                'style="fill:red;;:;"', 'transform="scale()"', 'stroke="red" stroke-dasharray="a,b"',
                'stroke="red" stroke-linecap="pointy"', 'stroke="red" stroke-linejoin="arcs"', 'fill-rule="oddeven"',
                'display="none" opacity="1e999"', 'rx="-1"', 'width="1e400"', 'x="NaN"']
    for v in bad_vals:
        out.append(("malformed", '<svg %s viewBox="0 0 9 9"><rect width="4" height="4" %s/></svg>' % (NS, v)))
    for vb in ['viewBox="1 2"', 'viewBox="a b c d"', 'viewBox=""', 'viewBox="0 0 0 0"', 'viewBox="0,0,-5,-5"', ""]:
        out.append(("malformed", '<svg %s %s><rect width="4" height="4" stroke="red"/><svg><rect width="1" height="1"/></svg></svg>' % (NS, vb)))
    for d in ['M1', 'M1 2 L', 'L1 2', 'M0 0 A1 1 0 2 0 3 3', 'M 0 0 C 1 1', '', 'Q', 'M1e999 0 L1 1', 'M0,0 L1,1 z z z M']:
        out.append(("malformed", '<svg %s viewBox="0 0 9 9"><path d="%s"/></svg>' % (NS, d)))
    for el in ['<filter id="f"/>', '<mask id="m"><rect width="1" height="1"/></mask>', '<image xlink:href="file:///etc/passwd"/>',
               '<text>x</text>', '<foreignObject><p xmlns="http://www.w3.org/1999/xhtml">x</p></foreignObject>',
               '<style>@import url(file:///etc/passwd);</style>', '<use xlink:href="http://example.com/x.svg#a"/>',
               '<use xlink:href="other.svg#a"/>', '<linearGradient id="q" xlink:href="file.svg#g"/><rect width="1" height="1" fill="url(#q)"/>',
               '<polygon points="1,2,3"/>', '<polyline points="a b"/>', '<svg overflow="scroll"><rect width="1" height="1"/></svg>',
               '<svg preserveAspectRatio="bogus" viewBox="0 0 1 1" width="2" height="3"><rect width="1" height="1"/></svg>']:
        out.append(("unsupported", '<svg %s viewBox="0 0 9 9">%s<rect width="2" height="2"/></svg>' % (NS, el)))
    # unsupported content below a group that survives simplification (0 < opacity < 1, >= 2 children)
    for el in ['<text>x</text>', '<image width="1" height="1"/>', '<mask id="m"><rect width="1" height="1"/></mask>',
               '<foreignObject width="2" height="2"/>', '<bogus/>', '<a><rect width="2" height="2"/></a>']:
        for body in ('<rect width="4" height="4"/><rect x="2" y="2" width="4" height="4" fill="blue"/>%s',
                     '<rect width="4" height="4"/><g opacity="0.5"><rect x="1" width="2" height="2"/><rect x="3" y="3" width="2" height="2"/>%s</g>'):
            out.append(("unsupported", '<svg %s viewBox="0 0 9 9"><g opacity="0.5">%s</g><rect x="6" y="6" width="2" height="2"/></svg>'
                        % (NS, body % el)))
    ents = [
        '<!DOCTYPE svg [<!ENTITY a "inner"><!ENTITY b "&a;&a;">]>',
        '<!DOCTYPE svg [<!ENTITY x SYSTEM "file://%s">]>' % canary_path,
        '<!DOCTYPE svg [<!ENTITY x PUBLIC "-//X//Y" "file://%s">]>' % canary_path,
        '<!DOCTYPE svg [<!ENTITY %% p SYSTEM "file://%s"> %%p;]>' % canary_path,
        '<!DOCTYPE svg [<!ENTITY a "aaaaaaaaaa"><!ENTITY b "&a;&a;&a;&a;&a;&a;&a;&a;"><!ENTITY c "&b;&b;&b;&b;&b;&b;&b;&b;"><!ENTITY d "&c;&c;&c;&c;&c;&c;&c;&c;"><!ENTITY x "&d;&d;&d;&d;&d;&d;&d;&d;">]>',
        '<!DOCTYPE svg SYSTEM "file://%s">' % canary_path,
    ]
    # an internal entity referenced in an attribute that is passed through verbatim (gradient stops)
    out.append(("entity", '<!DOCTYPE svg [<!ENTITY c "red">]><svg %s viewBox="0 0 9 9"><linearGradient id="g">'
                '<stop offset="0" stop-color="&c;"/><stop offset="1" stop-color="blue"/></linearGradient>'
                '<rect fill="url(#g)" width="4" height="4"/></svg>' % NS))
    for e in ents:
        for use in ('<title>&x;</title><rect width="2" height="2"/>', '<rect id="&x;" width="2" height="2"/>',
                    '<text>&x;</text>', '<g>&x;</g><rect width="2" height="2"/>'):
            out.append(("entity", '<?xml version="1.0"?>%s<svg %s viewBox="0 0 9 9">%s</svg>' % (e, NS, use)))
    return out


def run(out, tier):
    wd = common.workdir("c17")
    canary_dir = tempfile.mkdtemp(prefix="c17canary", dir=wd)
    canary_path = os.path.join(canary_dir, "canary.txt")
    open(canary_path, "w").write('<rect xmlns="http://www.w3.org/2000/svg" width="1" height="1" id="%s"/>' % CANARY)
    try:
        # design check: the model of use resolution with the cycle guard terminates on every graph
        r = common.tlc("Resolve", "Resolve_guarded.cfg", wd, timeout=1800)
        out.add_tlc(r)
        jobs = []
        n = 2 if tier == "quick" else 3
        cells = (n + 1) * n
        vals = (0, 1) if tier == "thorough" or n == 2 else (0, 1)
        for bits in itertools.product(vals, repeat=cells):
            uses = [list(bits[x * n:(x + 1) * n]) for x in range(n + 1)]
            jobs.append(("usegraph", uses, use_graph_doc(uses)))
            if sum(map(sum, uses[1:])):
                jobs.append(("usegraph", uses, use_graph_doc(uses, deep=True)))
        # multiplicity 2 on a few (growth = product of multiplicities)
        for uses in ([[2, 0, 0], [0, 2, 0], [0, 0, 2], [0, 0, 0]], [[1, 1, 1], [0, 2, 2], [0, 0, 2], [0, 0, 0]],
                     [[2, 2], [0, 2], [0, 0]], [[2, 0], [0, 2], [2, 0]]):
            jobs.append(("usegraph", uses, use_graph_doc(uses)))
        if tier == "quick":
            for bits in list(itertools.product((0, 1), repeat=12))[::7]:
                uses = [list(bits[x * 3:(x + 1) * 3]) for x in range(4)]
                jobs.append(("usegraph", uses, use_graph_doc(uses)))
        for kind, svg in families(canary_path):
            jobs.append((kind, [[0]], svg))
        recs = supervise(jobs, wd)
        for r_ in recs:
            r_["crashed"] = 1 if r_["end"].startswith("crashed") else 0
        verdicts, st, tr = common.validate_traces("TraceResolve", "TraceResolve.cfg", recs, wd)
        cov = out.coverage
        cov["states"] += st
        cov["transitions"] += tr
        cov["traces_validated_against_impl"] += len(recs)
        cov["evaluations"] += len(recs)
        hist, kinds = {}, {}
        for v, j in zip(verdicts, jobs):
            k = v.split(":")[0] + ":" + v.split(":")[1] if v.startswith("ok") else v
            hist[k] = hist.get(k, 0) + 1
            kinds[j[0]] = kinds.get(j[0], 0) + 1
        cov["parts"]["verdict_histogram"] = hist
        cov["parts"]["kinds"] = kinds
        cov["parts"]["ends"] = {}
        for r_ in recs:
            cov["parts"]["ends"][r_["end"]] = cov["parts"]["ends"].get(r_["end"], 0) + 1
        cov["distinct_nontrivial"] = len(recs) - hist.get("ok:model-drift", 0)
        cov["drift"] = hist.get("ok:model-drift", 0)
        cov["exhaustive"] = True
        cov["rule"] = ("every use-reference graph on %d ids + body (0/1 use per pair; a sample on 3 ids in "
                       "quick) and graphs with multiplicity 2, clip-path / gradient-href / use-to-use chains "
                       "of length 1-4 ending in a cycle, a dangling target or properly, uses inside their own "
                       "clip, malformed attribute values, path data and viewBoxes, unsupported elements, "
                       "DOCTYPE internal/external/parameter entities with a canary file; each under a %d s "
                       "watchdog and 3 GB address-space limit with hooks on" % (n, WALL))
        for j, v in zip(jobs, verdicts):
            if v.startswith("ok:cycle-rejected") and len(cov["samples"]) < 1:
                cov["samples"].append({"kind": j[0], "svg": j[2], "verdict": v})
            if v.startswith("ok:rounds-as-modelled") and len(cov["samples"]) < 2 and sum(map(sum, j[1])) > 2:
                cov["samples"].append({"kind": j[0], "svg": j[2], "verdict": v})
        if hist.get("ok:cycle-rejected", 0) == 0 or hist.get("ok:rounds-as-modelled", 0) == 0:
            raise common.MachineryError("vacuous run: %r" % hist)
        for j, v, r_ in zip(jobs, verdicts, recs):
            if v.startswith("BAD"):
                key = "C17/" + v.split(":", 1)[1].split(":")[0] + "/" + j[0]
                if v.startswith("BAD:process-crash") and j[0] == "entity" and \
                        __import__("re").search(r'="[^"]*&\w+;', j[2].split("]>", 1)[-1]):
                    key += "/entity-reference-in-attribute"
                if v.startswith("BAD") and "process-crash" not in v and j[0] == "entity" and \
                        __import__("re").search(r'<stop[^>]*="&\w+;"', j[2]):
                    key += "/entity-reference-in-passed-through-attribute"
                out.violation(key, "TLC rejected trace: " + v,
                              {"kind": j[0], "svg": j[2], "end": r_["end"], "rounds": r_["rounds"], "verdict": v})
    finally:
        common.cleanup(wd)


def replay(path):
    w = json.load(open(path))["witness"]
    print(w["svg"])
    print(convert_watched((w["kind"], [[0]], w["svg"])))
    return 0
