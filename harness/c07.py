"""C07 — conversion is idempotent: picosvg in, identical picosvg out."""
from . import structural


def classify(v, svg, opt, o1, adoc, rec):
    key = "C07/" + v.split(":", 1)[1]
    if v == "BAD:pass2-differs" and opt[1] == 1 and o1 and "<text" in o1:
        # same canonical XML, i.e. only the attribute order on passed-through text differs?
        from lxml import etree
        from . import doc as D
        r2 = D.convert(o1, ndigits=opt[0], allow_text=True, drop_unsupported=bool(opt[2]))
        if r2[0] == "ok":
            c = lambda t: etree.tostring(etree.fromstring(t.encode()), method="c14n")
            if c(r2[1]) == c(o1):
                key += "/attribute-order-on-passed-through-text"
    if v == "BAD:pass2-differs" and o1 and key == "C07/pass2-differs":
        # the one history of the known defs-order finding: pass 1 leaves the gradients of defs in an order
        # that is not the insertion procedure's own fixpoint, pass 2 sorts them (ascending ids) and
        # pass 3 changes nothing more; apart from that order the documents are identical
        from lxml import etree
        from . import doc as D
        kw = dict(ndigits=opt[0], allow_text=bool(opt[1]), drop_unsupported=bool(opt[2]))
        r2 = D.convert(o1, **kw)
        r3 = D.convert(r2[1], **kw) if r2[0] == "ok" else ("exc",)
        if r2[0] == "ok" and r3[0] == "ok" and r3[1] == r2[1]:
            def split(t):
                root = etree.fromstring(t.encode())
                defs = root[0]
                ids = [g.get("id") for g in defs]
                grads = sorted(etree.tostring(g, method="c14n") for g in defs)
                for g in list(defs):
                    defs.remove(g)
                return ids, grads, etree.tostring(root, method="c14n")
            i1, g1, b1 = split(o1)
            i2, g2, b2 = split(r2[1])
            if g1 == g2 and b1 == b2 and i1 != i2 and i2 == sorted(i2):
                key += "/defs-order-not-a-fixpoint-of-insertion"
    return key


def _steps(job):
    svg, drop = job
    from picosvg import _verif
    from picosvg.svg import SVG
    from .pipeline_obs import residues
    ev, res, res0 = [], [], []

    def sink(n, f):
        if n != "step":
            return
        try:
            r = residues(f["svg"], 3)
        except Exception as e:  # noqa
            r = ["observer-failed:" + type(e).__name__]
        if f["name"] == "begin":
            res0.extend(r)
        else:
            ev.append(f["name"])
            res.append(r)

    _verif.install(sink)
    try:
        SVG.fromstring(svg).topicosvg(drop_unsupported=bool(drop))
    except Exception:  # noqa
        pass
    finally:
        _verif.install(None)
    return {"drop": drop, "ev": ev, "res": res, "res0": res0}


def pipeline_binding(out, srcs, tier):
    """design check of the step-order model + binding of the model to the real step order (hooks)"""
    from . import common
    wd = common.workdir("c07p")
    try:
        r = common.tlc("Pipeline", "Pipeline_repaired.cfg", wd, timeout=1800)
        out.add_tlc(r)
        n = 600 if tier == "quick" else 6000
        jobs = [(svg, k % 2) for k, (name, svg, adoc) in enumerate(srcs[:: max(1, len(srcs) // n)][:n])]
        recs = common.pmap(_steps, jobs)
        verdicts, st, tr = common.validate_traces("TracePipeline", "TracePipeline.cfg", recs, wd)
        out.coverage["states"] += st
        out.coverage["transitions"] += tr
        hist = {}
        for v in verdicts:
            k = v
            hist[k] = hist.get(k, 0) + 1
        out.coverage["parts"]["pipeline_step_order"] = hist
        out.coverage["parts"]["pipeline_drift_examples"] = [
            {"verdict": v, "drop_unsupported": j[1], "input": j[0]}
            for v, j in zip(verdicts, jobs) if v.startswith("drift")][:3]
        ndrift = sum(n_ for k, n_ in hist.items() if k.startswith("drift"))
        out.coverage["drift"] += ndrift
        if ndrift:
            print("MODEL-DRIFT C07: the recorded topicosvg step order is not a run of Pipeline.tla: %s"
                  % [e["verdict"] for e in out.coverage["parts"]["pipeline_drift_examples"]][:1])
    finally:
        common.cleanup(wd)


def run(out, tier):
    srcs, recs, verdicts = structural.run_structural(
        out, "C07", tier, ("ok:fixpoint",),
        "documents drawn by TLC from Build.tla (all foci) plus tests/*.svg x ndigits/options vectors; "
        "each accepted document is converted three times with the same options; events "
        "Convert(pass, hash) are judged by the action property 'after pass 1 every conversion "
        "stutters' and the library's own check must report nothing on pass 1; non-trivial = pass 1 "
        "returned normally. Additionally Pipeline.tla (step-order model of topicosvg) is model-checked "
        "(CheckedIsPico on all 65536 abstract documents) and bound to the code by validating the hooked "
        "step events of real conversions against it (drift only)", classify)
    pipeline_binding(out, srcs, tier)


replay = structural.replay
