"""C07 — conversion is idempotent: picosvg in, identical picosvg out."""
from . import structural


def classify(v, svg, opt, o1, adoc, rec):
    key = "C07/" + v.split(":", 1)[1]
    if v == "BAD:pass2-differs" and opt[1] == 1 and o1 and "<text" in o1:
        # same canonical XML, i.e. only the attribute order on passed-through text differs?
        from lxml import etree
        from . import doc as D
        r2 = D.convert(o1, ndigits=opt[0], allow_text=True, drop_unsupported=bool(opt[2]))
        if r2[0] == "ok":
            c = lambda t: etree.tostring(etree.fromstring(t.encode()), method="c14n")
            if c(r2[1]) == c(o1):
                key += "/attribute-order-on-passed-through-text"
    return key


def run(out, tier):
    structural.run_structural(
        out, "C07", tier, ("ok:fixpoint",),
        "documents drawn by TLC from Build.tla (all foci) plus tests/*.svg x ndigits/options vectors; "
        "each accepted document is converted three times with the same options; events "
        "Convert(pass, hash) are judged by the action property 'after pass 1 every conversion "
        "stutters' and the library's own check must report nothing on pass 1; non-trivial = pass 1 "
        "returned normally", classify)


replay = structural.replay
