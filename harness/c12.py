"""C12 — arc-to-cubic conversion tracks the true elliptical arc (spec/TraceArc.tla)."""
import itertools
import json
import math
import random

from . import common

RR = 20000


def circle_points(r):
    pts = []
    for x in range(-r, r + 1):
        for y in range(-r, r + 1):
            if x * x + y * y == r * r:
                pts.append((x, y))
    return pts


def bez(p0, p1, p2, p3, t):
    mt = 1 - t
    return (mt ** 3 * p0[0] + 3 * mt * mt * t * p1[0] + 3 * mt * t * t * p2[0] + t ** 3 * p3[0],
            mt ** 3 * p0[1] + 3 * mt * mt * t * p1[1] + 3 * mt * t * t * p2[1] + t ** 3 * p3[1])


ROTS = {0: (1, 0), 90: (0, 1), 180: (-1, 0), 270: (0, -1), 450: (0, 1), -90: (0, -1),
        "345": (0.6, 0.8)}   # cos, sin ; "345" = atan(4/3), exact 3-4-5 rotation


def arc_job(job):
    """job = (r, O, s, e, large, sweep, ax, ay, rot, k10, radius_mode)"""
    from picosvg.arc_to_cubic import arc_to_cubic
    r, O, s, e, large, sweep, ax, ay, rot, k10, mode = job
    cs, sn = ROTS[rot]
    phi = math.degrees(math.atan2(sn, cs)) if rot == "345" else float(rot)
    sc = 10.0 ** k10

    def fwd(p):      # circle frame -> arc frame: stretch, rotate, scale
        x, y = p[0] * ax, p[1] * ay
        return ((cs * x - sn * y) * sc, (sn * x + cs * y) * sc)

    def back(q):     # arc frame -> circle frame, centred on O, in units of RR per radius
        x, y = q[0] / sc, q[1] / sc
        x, y = cs * x + sn * y, -sn * x + cs * y
        x, y = x / ax, y / ay
        return (int(round((x - O[0]) * RR / r)), int(round((y - O[1]) * RR / r)))

    S, E = fwd(s), fwd(e)
    rx, ry = r * ax * sc, r * ay * sc
    cls = "arc"
    if mode == "half":
        rx, ry = rx / 2, ry / 2          # too small: only valid for antipodal s, e (scaled back up)
    elif mode == "tenth":
        rx, ry = rx / 10, ry / 10
    elif mode == "barely+":
        rx, ry = rx * (1 + 1e-9), ry * (1 + 1e-9)
    elif mode == "barely-":
        rx, ry = rx * (1 - 1e-9), ry * (1 - 1e-9)
    elif mode == "neg":
        rx, ry = -rx, -ry
    elif mode == "negx":                 # F.6.6: the absolute value of EACH radius is used
        rx = -rx
    elif mode == "negy":
        ry = -ry
    elif mode == "zero":
        rx, cls = 0.0, "zeroradius"
    if s == e:
        cls = "coincident"
    if mode == "tinier":
        # ... and a few 10^-10 apart: still two different points (only IDENTICAL end points make an arc vanish)
        E = (S[0] + 4e-10, S[1] - 3e-10)
        cls = "tiny"
    if mode == "tiny":
        # distinct end points a 10^-4 of a radius apart (extent of a few thousandths of a degree)
        E = (S[0] + 0.7e-4 * r * sc, S[1] - 0.4e-4 * r * sc)
        cls = "tiny"
    rec = {"k": "ok", "t": "", "class": cls, "r": r, "RR": RR, "o": list(O), "s": list(s), "e": list(e),
           "large": large, "sweep": sweep, "segs": [], "line": 0, "endexact": 0, "startok": 1,
           "tol": int(RR * 0.0003) + 3}
    try:
        res = list(arc_to_cubic(S, rx, ry, phi, large, sweep, E))
    except Exception as ex:  # noqa
        rec["k"], rec["t"] = "exc", type(ex).__name__
        return rec
    cur = S
    for p1, p2, end in res:
        if p1 is None:
            rec["line"] = 1
        else:
            pts = []
            for k in range(17):
                q = back(bez(cur, p1, p2, end, k / 16))
                pts += [q[0], q[1]]
            rec["segs"].append({"pts": pts})
        cur = (end[0], end[1])
    if res:
        rec["endexact"] = 1 if (cur[0] == E[0] and cur[1] == E[1]) else 0
    return rec


def jobs_for(tier, rng):
    jobs = []
    radii = [5, 13] if tier == "quick" else [5, 13, 25]
    for r in radii:
        pts = circle_points(r)
        for O in [(0, 0), (7, -3)]:
            for (s, e) in itertools.product(pts, repeat=2):
                for large, sweep in itertools.product((0, 1), repeat=2):
                    if tier == "quick" and rng.random() > 0.7:
                        continue
                    ax, ay = rng.choice([(1, 1), (1, 1), (2, 1), (1, 3), (3, 2)])
                    rot = rng.choice([0, 90, 180, 270, 450, -90, "345", 0])
                    k10 = rng.choice([0, 0, -3, -2, -1, 1, 2, 3, -10, -9, 6, 8, 9, 12])
                    S = (s[0] + O[0], s[1] + O[1])
                    E = (e[0] + O[0], e[1] + O[1])
                    jobs.append((r, O, S, E, large, sweep, ax, ay, rot, k10, "exact"))
        # radii too small / barely fitting / negative / zero: antipodal endpoints
        for s in pts:
            e = (-s[0], -s[1])
            for mode in ("half", "tenth", "barely+", "barely-", "neg", "zero"):
                for large, sweep in itertools.product((0, 1), repeat=2):
                    jobs.append((r, (0, 0), s, e, large, sweep, 1, 1, rng.choice([0, 90, "345"]),
                                 rng.choice([0, -2, 2]), mode))
                    if mode in ("half", "tenth"):
                        # too small AND not a circle AND rotated: the correction has to measure the half
                        # chord in the ellipse's own frame
                        jobs.append((r, (0, 0), s, e, large, sweep, rng.choice([2, 3]), rng.choice([1, 2]),
                                     rng.choice([90, "345", 450, -90]), 0, mode))
        for s in pts[:6]:
            jobs.append((r, (0, 0), s, s, 1, 1, 1, 1, 0, 0, "exact"))
            # coincident endpoints win over every other degenerate case (F.6.2 comes first)
            for mode in ("zero", "neg", "half"):
                jobs.append((r, (0, 0), s, s, rng.choice([0, 1]), rng.choice([0, 1]), 1, 1,
                             rng.choice([0, 90, "345"]), 0, mode))
        for s in pts[:4]:
            jobs.append((r, (0, 0), s, pts[3], 0, 1, 1, 1, 0, 0, "neg"))
        for s in pts[:8]:
            for sweep in (0, 1):
                jobs.append((r, (0, 0), s, s, 0, sweep, rng.choice([1, 2]), 1, rng.choice([0, 90, "345"]),
                             rng.choice([0, -3, 3]), "tiny"))
                for large in (0, 1):
                    jobs.append((r, (0, 0), s, s, large, sweep, 1, 1, rng.choice([0, 90]), 0, "tinier"))
        for s in pts[:6]:
            for e in pts[2:5]:
                for large, sweep in itertools.product((0, 1), repeat=2):
                    for mode in ("negx", "negy"):
                        jobs.append((r, (0, 0), s, e, large, sweep, rng.choice([1, 2]), 1, rng.choice([0, 90, "345"]), 0, mode))
    return jobs


def run(out, tier):
    rng = random.Random(common.seed())
    wd = common.workdir("c12")
    try:
        jobs = jobs_for(tier, rng)
        recs = common.pmap(arc_job, jobs, chunksize=64)
        verdicts, st, tr = common.validate_traces("TraceArc", "TraceArc.cfg", recs, wd, chunk=50000)
        cov = out.coverage
        cov["states"] += st
        cov["transitions"] += tr
        cov["traces_validated_against_impl"] += len(recs)
        cov["evaluations"] += len(recs)
        hist = {}
        for v in verdicts:
            hist[v] = hist.get(v, 0) + 1
        cov["parts"]["verdict_histogram"] = hist
        cov["distinct_nontrivial"] = hist.get("ok:arc", 0)
        cov["rule"] = ("all ordered pairs of the integer points of circles r in %s about two centres x 4 flag "
                       "combinations (quick: half of them), mapped through integer axis stretches, rotations by "
                       "multiples of 90 degrees / the 3-4-5 angle / more than a full turn, and decimal scalings "
                       "10^-10..10^6; antipodal endpoints with radii too small by 2 and 10, fitting within 1e-9, "
                       "negative and zero radii; coincident endpoints; non-trivial = cubics were produced and "
                       "every clause was evaluated on 17 points per cubic" % ([5, 13] if tier == "quick" else [5, 13, 25]))
        for j, v in zip(jobs, verdicts):
            if v == "ok:arc" and len(cov["samples"]) < 2 and j[8] == "345":
                cov["samples"].append({"arc": list(map(str, j)), "verdict": v})
        for want in ("ok:arc", "ok:zero-radius-line", "ok:coincident-nothing"):
            if not hist.get(want):
                raise common.MachineryError("vacuous run, no %s: %r" % (want, hist))
        for j, v in zip(jobs, verdicts):
            if v.startswith("BAD"):
                out.violation("C12/" + v.split(":", 1)[1] + "/" + j[10], "TLC rejected trace: " + v,
                              {"arc": list(map(str, j)), "verdict": v})
    finally:
        common.cleanup(wd)


def replay(path):
    print(json.load(open(path))["witness"])
    return 0
