"""C15 — an SVG object always equals its serialisation, whatever the operation history.

PicoObject.tla is the cache-protocol model; TLC enumerates/simulates histories from it, the driver
executes each on the real class (direct chain vs. re-parse chain), TraceObject.tla validates."""
import copy
import hashlib
import itertools
import json
import os
import random

from lxml import etree

from . import common

CORPUS = {
    "shapes": '<svg xmlns="http://www.w3.org/2000/svg" viewBox="0 0 20 20" width="20" height="20"><rect x="1" y="1" width="5" height="4" style="fill:red;opacity:0.5"/><path d="m2,2 l3,0 t2,2 z m5,5 h2 v2 z" fill-rule="evenodd"/><circle cx="25" cy="5" r="2"/><line x1="0" y1="0" x2="0.0004" y2="0" stroke="blue"/><polygon points="1.23456,2.34567 8,3 4,9" fill="none"/></svg>',
    "use": '<svg xmlns="http://www.w3.org/2000/svg" xmlns:xlink="http://www.w3.org/1999/xlink" viewBox="0 0 20 20"><defs><rect id="r" width="4" height="3"/><g id="g"><circle cx="2" cy="2" r="1.5"/></g></defs><use xlink:href="#r" x="3" y="2" fill="red"/><g opacity="0.5"><use xlink:href="#g" transform="scale(2)"/><use xlink:href="#r"/></g></svg>',
    "nested": '<svg xmlns="http://www.w3.org/2000/svg" viewBox="0 0 20 20"><svg x="2" y="2" width="10" height="10" viewBox="0 0 5 5"><rect width="5" height="2" fill="blue"/></svg><ellipse cx="5" cy="15" rx="3" ry="2" style="fill:lime;stroke:black;stroke-width:0.5"/></svg>',
    "noise": '<?xml version="1.0"?><?pi before?><!-- c0 --><svg xmlns="http://www.w3.org/2000/svg" xmlns:foo="http://example.com/foo" viewBox="0 0 20 20" foo:bar="1"><title>t</title><?pi x?><!-- c --><symbol><rect width="20" height="20"/></symbol><foo:el/><metadata/><path d="M1,1 L9,1 L9,9 L1,9 Z M3,3 L7,3 L7,7 L3,7 Z" fill-rule="evenodd" fill-opacity="0.5"/><desc>d</desc></svg><?pi after?><!-- c9 -->',
    "gradient": '<svg xmlns="http://www.w3.org/2000/svg" xmlns:xlink="http://www.w3.org/1999/xlink" viewBox="0 0 20 20"><defs><linearGradient id="a" x2="0.5"><stop offset="0" stop-color="red"/><stop offset="1" stop-color="blue" style="stop-opacity:0.5"/></linearGradient><linearGradient id="b" xlink:href="#a" gradientTransform="rotate(90)"/></defs><g transform="translate(2,3)" style="fill:url(#b)"><rect width="6" height="6"/><rect x="7" width="3" height="6" style="fill:url(#a)" opacity="0"/></g></svg>',
    "rootpaint": '<svg xmlns="http://www.w3.org/2000/svg" viewBox="0 0 20 20" fill="red" fill-opacity="0.5"><g opacity="0.5"><rect x="1" y="1" width="6" height="6"/><rect x="4" y="4" width="6" height="6" fill="blue"/></g><g><circle cx="14" cy="14" r="3"/></g></svg>',
    "inherit": '<svg xmlns="http://www.w3.org/2000/svg" viewBox="0 0 20 20" fill="green"><g style="stroke:red;stroke-width:2" fill="black" opacity="0.5"><rect x="2" y="2" width="6" height="6" fill="black"/><g fill="none"><rect x="5" y="5" width="6" height="6" stroke="none"/></g></g><clipPath id="c"><rect width="4" height="20"/></clipPath><rect width="20" height="3" y="12" clip-path="url(#c)"/></svg>',
}

EDITORS = ["absolute", "shapes_to_paths", "expand_shorthand", "evenodd_to_nonzero_winding",
           "round_floats", "remove_empty_subpaths", "normalize_opacity"]
MUTATORS = ["apply_style_attributes", "resolve_use", "simplify", "clip_to_viewbox",
            "remove_unpainted_shapes", "remove_nonsvg_content", "remove_processing_instructions",
            "remove_anonymous_symbols", "remove_title_meta_desc", "set_attributes",
            "remove_attributes", "resolve_nested_svgs", "topicosvg", "set_viewbox", "remove_viewbox",
            "set_root_paint"]
QUERIES = ["shapes", "bounding_box", "tostring", "toetree", "checkpicosvg", "view_box", "tolerance", "xpath"]


def call(svg, op, mode):
    kw = {} if mode == "query" else {"inplace": mode == "inplace"}
    if op == "round_floats":
        return svg.round_floats(2, **kw)
    if op == "set_attributes":
        return svg.set_attributes((("fill", "lime"), ("data-x", "y")), xpath="//svg:g | //svg:rect", **kw)
    if op == "remove_attributes":
        return svg.remove_attributes(("width", "fill"), xpath="/svg:svg | //svg:g", **kw)
    if op == "set_viewbox":
        # what view_box(), tolerance and clip_to_viewbox() answer depends on it
        return svg.set_attributes((("viewBox", "2 2 9 9"),), xpath="/svg:svg", **kw)
    if op == "set_root_paint":
        # default xpath: every shape without a fill of its own inherits it, cached or not
        return svg.set_attributes((("fill", "teal"), ("stroke-linejoin", "round")), **kw)
    if op == "remove_viewbox":
        return svg.remove_attributes(("viewBox",), xpath="/svg:svg", **kw)
    if op == "xpath":
        return svg.xpath("//svg:path")
    if op == "tolerance":
        return svg.tolerance
    return getattr(svg, op)(**kw)


def chash(text):
    x = etree.tostring(etree.fromstring(text.encode()), method="c14n")
    return hashlib.sha1(x).hexdigest()[:12]


def ser(svg):
    """canonical XML hash of the object's serialisation.  tostring() flushes the shape cache, so
    this is only ever called on objects the direct chain no longer continues on (a receiver left
    behind by a copying step, the re-parse chain, the final object)."""
    try:
        return chash(svg.tostring())
    except Exception as e:  # noqa
        return "unserialisable:" + type(e).__name__


def execute(doc_name, history):
    from picosvg.svg import SVG

    src = CORPUS[doc_name]
    a = SVG.fromstring(src)       # direct chain: never observed in between
    b = SVG.fromstring(src)       # re-parse chain
    steps = []
    for k, (op, mode) in enumerate(history):
        tb = b.tostring()
        b = SVG.fromstring(tb)
        st = {"op": op, "mode": mode, "self": 0, "xd": "ok", "xr": "ok", "d": "", "r": "",
              "rb": chash(tb), "ra": "", "pop": 0}
        recv = a
        try:
            ret = call(a, op, mode)
        except RecursionError:
            ret = None
            st["xd"] = "RecursionError"
        except Exception as e:  # noqa
            ret = None
            st["xd"] = type(e).__name__
        try:
            # the re-parse chain always uses the IN-PLACE form on its freshly parsed object: a copying
            # operation must return what the in-place form produces on a copy
            ret2 = call(b, op, "inplace" if mode == "copy" else mode)
        except Exception as e:  # noqa
            ret2 = None
            st["xr"] = type(e).__name__
        if st["xd"] == "ok" and st["xr"] == "ok":
            if mode != "query":
                st["self"] = 1 if ret is recv else 0
                if isinstance(ret, SVG) and isinstance(ret2, SVG):
                    a, b = ret, ret2
                # a non-SVG return value (e.g. None) leaves the chains on their receivers;
                # self = 0 reports it for in-place operations
            # receiver left behind by a copying step: what it serialises to now must be what the
            # document was before the step (= the re-parse chain's input to this step)
            st["ra"] = ser(recv) if (mode == "copy" and a is not recv) else st["rb"]
            st["r"] = ser(b)
            last = k == len(history) - 1
            st["pop"] = 1 if a.elements else 0
            st["d"] = ser(a) if last else st["r"]
        steps.append(st)
        if st["xd"] != "ok" or st["xr"] != "ok":
            break
    return {"doc": doc_name, "steps": steps}


def _job(j):
    return execute(*j)


def histories(tier, rng, wd, out):
    ops = [(o, m) for o in EDITORS + MUTATORS for m in ("inplace", "copy")] + [(q, "query") for q in QUERIES]
    hs = [[x] for x in ops] + [list(p) for p in itertools.product(ops, repeat=2)]
    n3 = 2500 if tier == "quick" else 40000
    # triples and longer histories are drawn by TLC -simulate from PicoObject.tla
    cfg = "PicoObject_%d.cfg" % os.getpid()
    with open(os.path.join(common.SPEC, cfg), "w") as f:
        f.write("SPECIFICATION Spec\nCONSTANTS\n  CloneFlushes = TRUE\n  MaxLen = 8\n  EmitHistories = TRUE\n"
                "INVARIANT SerEqualsIdeal\nINVARIANT Emitted\nCHECK_DEADLOCK FALSE\n")
    try:
        r = common.tlc("PicoObject", cfg, wd, simulate=n3 // 4, depth=9, workers=4,
                       seedval=common.seed() * 13 + 5, timeout=1200, heap="2g")
    finally:
        os.unlink(os.path.join(common.SPEC, cfg))
    out.add_tlc(r)
    sims = r.json_lines("CASE")
    seen = set()
    for h in sims:
        t = tuple(tuple(x) for x in h)
        if len(t) >= 3 and t not in seen:
            seen.add(t)
            hs.append([list(x) for x in t])
    return hs


def run(out, tier):
    rng = random.Random(common.seed())
    wd = common.workdir("c15")
    try:
        # design check: the cache protocol model itself satisfies the property (exhaustive, <= 3 steps)
        cfg = "PicoObjectMC_%d.cfg" % os.getpid()
        with open(os.path.join(common.SPEC, cfg), "w") as f:
            f.write("SPECIFICATION Spec\nCONSTANTS\n  CloneFlushes = TRUE\n  MaxLen = %d\n  EmitHistories = FALSE\n"
                    "INVARIANT SerEqualsIdeal\nINVARIANT PendImpliesPop\nCHECK_DEADLOCK FALSE\n"
                    % (3 if tier == "quick" else 4))
        try:
            r = common.tlc("PicoObject", cfg, wd, timeout=3000)
        finally:
            os.unlink(os.path.join(common.SPEC, cfg))
        out.add_tlc(r)
        hs = histories(tier, rng, wd, out)
        docs = list(CORPUS)
        jobs = []
        for i, h in enumerate(hs):
            if tier == "quick":
                names = [docs[i % len(docs)], docs[(i // 7 + 3) % len(docs)]] if len(h) <= 2 else [docs[i % len(docs)]]
            else:
                names = docs if len(h) <= 2 else [docs[i % len(docs)], docs[(i + 2) % len(docs)]]
            for nme in dict.fromkeys(names):
                jobs.append((nme, h))
        recs = common.pmap(_job, jobs, chunksize=16)
        verdicts, st, tr = common.validate_traces("TraceObject", "TraceObject.cfg", recs, wd, chunk=100000)
        cov = out.coverage
        cov["states"] += st
        cov["transitions"] += tr
        cov["traces_validated_against_impl"] += len(recs)
        cov["evaluations"] += sum(len(r_["steps"]) for r_ in recs)
        hist = {}
        for v in verdicts:
            k = v.split("@")[0]
            hist[k] = hist.get(k, 0) + 1
        cov["parts"]["verdict_histogram"] = hist
        cov["parts"]["histories"] = len(hs)
        cov["distinct_nontrivial"] = sum(n for k, n in hist.items() if k.startswith("ok:history") and "exception" not in k)
        cov["drift"] = sum(n for k, n in hist.items() if "drift" in k)
        cov["exhaustive"] = True
        cov["rule"] = ("all histories of length 1 and 2 over %d (operation, mode) pairs (exhaustive) plus "
                       "histories of length 3..8 drawn by TLC -simulate from PicoObject.tla, each on documents "
                       "of a 7-document corpus, executed directly and with re-parse between steps; "
                       "non-trivial = history ran to its end in both chains and every clause was evaluated"
                       % (2 * len(EDITORS + MUTATORS) + len(QUERIES)))
        for r_, v in zip(recs, verdicts):
            if v.startswith("ok:history") and len(r_["steps"]) >= 3 and len(cov["samples"]) < 2:
                cov["samples"].append({"doc": r_["doc"], "history": [[s["op"], s["mode"]] for s in r_["steps"]],
                                       "verdict": v})
        if cov["distinct_nontrivial"] < len(recs) // 4:
            raise common.MachineryError("vacuous run: %r" % hist)
        for r_, v in zip(recs, verdicts):
            if v.startswith("BAD"):
                head, _, tail = v.partition("@")
                k, op, mode = tail.split(":")
                out.violation(classify(head, op, mode, r_, int(k)), "TLC rejected trace: " + v,
                              {"doc": r_["doc"], "svg": CORPUS[r_["doc"]],
                               "history": [[s["op"], s["mode"]] for s in r_["steps"]], "verdict": v})
    finally:
        common.cleanup(wd)


def classify(head, op, mode, rec, k):
    return "C15/" + head.split(":", 1)[1] + "/" + op + ":" + mode


def replay(path):
    w = json.load(open(path))["witness"]
    print(json.dumps(execute(w["doc"], [tuple(x) for x in w["history"]]), indent=1))
    return 0
