"""C19 — clipping to the viewBox and bounding boxes are geometrically exact (spec/TraceClip.tla)."""
import json
import math
import random
import re

from . import common, doc as D

BOX = [-3, -3, 19, 19]
VBS = [(0, 0, 16, 16), (3, 2, 8, 8), (0, 0, 16, 6), (0, 0, 6, 16), (5, 5, 10, 4), (-2, -2, 9, 12),
       (4, 0, 12, 5), (0, 8, 5, 8), (2, 3, 4, 11), (6, 1, 9, 14)]


def clip_job(job):
    from picosvg.svg import SVG
    pico, vb = job
    reframed = re.sub(r'viewBox="[^"]*"', 'viewBox="%d %d %d %d"' % vb, pico, count=1)
    box = BOX if max(vb[0] + vb[2], vb[1] + vb[3]) <= 19 else [vb[0] - 3, vb[1] - 3, vb[0] + vb[2] + 3, vb[1] + vb[3] + 3]
    rec = {"kind": "clip", "vb": list(vb), "box": box, "a": [], "b": {"k": "exc", "layers": [], "outp": {"nodes": []}}}
    try:
        rec["a"] = D.project(reframed)["layers"]
    except Exception as e:  # noqa
        return None, reframed, ""
    try:
        out = SVG.fromstring(reframed).clip_to_viewbox().tostring()
        rec["b"] = {"k": "ok", "layers": D.project(out)["layers"], "outp": D.structure(out)[0]}
    except Exception as e:  # noqa
        out = type(e).__name__ + ": " + str(e)[:200]
        rec["b"]["t"] = type(e).__name__
    return rec, reframed, out


def overhang_family():
    """shapes that cross a side of a 64-unit viewBox by 1/32 .. 1/2 unit (less than the library's
    size-relative tolerance upwards): clipping is exact, not 'within tolerance'"""
    jobs = []
    for k in (2, 3, 8, 32):                       # overhang in 1/64 units
        o = k / 64
        for d in ("M10,10 L%s,10 L%s,30 L10,30 Z" % (64 + o, 64 + o), "M%s,5 L20,5 L20,25 L%s,25 Z" % (-o, -o),
                  "M5,%s L25,%s L25,20 L5,20 Z" % (-o, -o), "M30,40 L50,40 L50,%s L30,%s Z" % (64 + o, 64 + o),
                  "M%s,%s L%s,%s L%s,%s L%s,%s Z" % (-o, -o, 64 + o, -o, 64 + o, 64 + o, -o, 64 + o)):
            jobs.append(('<svg xmlns="http://www.w3.org/2000/svg" viewBox="0 0 64 64"><defs/><path d="%s" fill="red"/>'
                         '<path d="M1,1 L9,1 L9,9 Z"/></svg>' % d, (0, 0, 64, 64)))
    # the only user of a gradient lies outside the viewBox: clipped away, the gradient must not stay behind
    for vb in ((0, 0, 8, 8), (0, 0, 16, 6)):
        jobs.append(('<svg xmlns="http://www.w3.org/2000/svg" viewBox="0 0 16 16"><defs><linearGradient id="a" x1="0" y1="0" '
                     'x2="1" y2="0"><stop offset="0" stop-color="red"/><stop offset="1" stop-color="blue"/></linearGradient>'
                     '<linearGradient id="b" x1="0" y1="0" x2="1" y2="0"><stop offset="0" stop-color="lime"/></linearGradient>'
                     '</defs><path d="M1,1 L5,1 L5,5 Z" fill="url(#b)"/><path fill="url(#a)" d="M10,10 L14,10 L14,14 Z"/></svg>', vb))
    # a picosvg path may still carry a clip-rule (it means nothing there): cutting it at the viewBox goes
    # by its FILL rule - visible on same-direction nested contours straddling the border
    for rule in ("evenodd", "nonzero"):
        for d in ("M2,2 h10 v10 h-10 z M5,5 h4 v4 h-4 z", "M8,1 L11,13 L2,5 L14,5 L5,13 Z"):
            for vb in ((0, 0, 8, 8), (6, 0, 10, 16), (0, 6, 16, 10)):
                jobs.append(('<svg xmlns="http://www.w3.org/2000/svg" viewBox="0 0 16 16"><defs/><path clip-rule="%s" d="%s" '
                             'fill="red"/></svg>' % (rule, d), vb))
    return jobs


def dense(d, steps=64):
    pts = []
    for poly in D.flatten(d, steps=steps):
        pts += poly
    return pts


def ellipse_pts(cx, cy, rx, ry, n=720):
    return [(cx + rx * math.cos(2 * math.pi * k / n), cy + ry * math.sin(2 * math.pi * k / n)) for k in range(n)]


SHAPES = [
    ("path", "M0,0 C0,10 10,10 10,0"), ("path", "M0,0 Q5,10 10,0"), ("path", "M2,2 Q12,2 6,9 Q0,16 1,1 Z"),
    ("path", "M2,5 A4 3 30 1 0 9 6"), ("path", "M0 0 Q 8 12 10 0 C 12 -8 14 4 9 9"),
    ("path", "M1,1 L9,1 L9,9 Z"), ("path", "M3,3 C-6,8 14,12 5,-2 Z M10,10 Q14,18 16,10"),
    ("path", "M8,8 A5 5 0 0 1 13 13 A5 5 0 0 1 3 13"), ("path", "M0,5 Q5,-5 10,5 Q5,15 0,5 Z"),
    ("path", "M1,8 C1,-4 15,20 15,8"), ("path", "M2 2 L4 9 Q9 14 12 3 L2 2"),
    ("rect", (1, 2, 7, 4, 0, 0)), ("rect", (1, 2, 7, 4, 2, 1)), ("circle", (6, 7, 4)), ("ellipse", (8, 5, 6, 2)),
    ("polygon", (1, 1, 9, 3, 4, 12)), ("line", (2, 9, 11, 3)),
]


def shape_obj(kind, data):
    from picosvg import svg_types as T
    if kind == "path":
        return T.SVGPath(d=data)
    if kind == "rect":
        return T.SVGRect(x=data[0], y=data[1], width=data[2], height=data[3], rx=data[4], ry=data[5])
    if kind == "circle":
        return T.SVGCircle(cx=data[0], cy=data[1], r=data[2])
    if kind == "ellipse":
        return T.SVGEllipse(cx=data[0], cy=data[1], rx=data[2], ry=data[3])
    if kind == "polygon":
        return T.SVGPolygon(points=" ".join(str(v) for v in data))
    if kind == "line":
        return T.SVGLine(x1=data[0], y1=data[1], x2=data[2], y2=data[3])


def shape_pts(kind, data):
    if kind == "path":
        return dense(data)
    if kind == "rect":
        x, y, w, h, rx, ry = data
        pts = [(x + rx, y), (x + w - rx, y), (x + w, y + ry), (x + w, y + h - ry), (x + w - rx, y + h),
               (x + rx, y + h), (x, y + h - ry), (x, y + ry)]
        return pts
    if kind == "circle":
        return ellipse_pts(data[0], data[1], data[2], data[2])
    if kind == "ellipse":
        return ellipse_pts(*data)
    if kind == "polygon":
        return [(data[i], data[i + 1]) for i in range(0, len(data), 2)]
    if kind == "line":
        return [(data[0], data[1]), (data[2], data[3])]


def mil(v):
    return int(round(v * 1000))


def bbox_job(job):
    """job: list of (kind, data, (dx, dy, s)) shapes; one shape = shape bbox, several = document bbox"""
    from picosvg.svg import SVG
    pts = []
    try:
        if len(job) == 1:
            kind, data = job[0]
            bb = shape_obj(kind, data).bounding_box()
        else:
            from picosvg.svg import to_element  # noqa
            from lxml import etree
            els = "".join(etree.tostring(to_element(shape_obj(k, d))).decode() for k, d in job)
            bb = SVG.fromstring('<svg xmlns="http://www.w3.org/2000/svg" viewBox="0 0 20 20">%s</svg>' % els).bounding_box()
        box = [mil(bb.x), mil(bb.y), mil(bb.x + bb.w), mil(bb.y + bb.h)]
    except Exception as e:  # noqa
        box = []
    for kind, data in job:
        pts += shape_pts(kind, data)
    flat = []
    for x, y in pts:
        flat += [mil(x), mil(y)]
    return {"kind": "bbox", "pts": flat, "bb": box, "delta": 12}


def run(out, tier):
    rng = random.Random(common.seed())
    wd = common.workdir("c19")
    try:
        npico = 120 if tier == "quick" else 800
        picos = []
        for focus in ("paint", "struct"):
            docs, gens = D.generate_docs(focus, npico, common.seed(), wd, max_nodes=6)
            for g in gens:
                out.add_tlc(g)
            seen = set()
            for d in docs:
                svg = D.concretise(d)
                if svg in seen:
                    continue
                seen.add(svg)
                r = D.convert(svg)
                if r[0] == "ok" and "<path" in r[1]:
                    picos.append(r[1])
        jobs = []
        for i, p in enumerate(picos):
            for vb in ([VBS[(i + k) % len(VBS)] for k in (0, 3)] if tier == "quick" else VBS):
                jobs.append((p, vb))
        jobs += overhang_family()
        res = common.pmap(clip_job, jobs)
        recs, meta = [], []
        for r, src, o in res:
            if r is not None:
                recs.append(r)
                meta.append(("clip", src, o))
        bjobs = [[s] for s in SHAPES]
        for _ in range(60 if tier == "quick" else 2000):
            bjobs.append([rng.choice(SHAPES) for _ in range(rng.choice([2, 3]))])
        for j in bjobs:
            recs.append(bbox_job(j))
            meta.append(("bbox", json.dumps(j), ""))
        verdicts, st, tr = common.validate_traces("TraceClip", "TraceClip.cfg", recs, wd, chunk=3000)
        cov = out.coverage
        cov["states"] += st
        cov["transitions"] += tr
        cov["traces_validated_against_impl"] += len(recs)
        cov["evaluations"] += len(recs)
        hist = {}
        for v in verdicts:
            k = v.split("@")[0]
            hist[k] = hist.get(k, 0) + 1
        cov["parts"]["verdict_histogram"] = hist
        cov["distinct_nontrivial"] = hist.get("ok:clipped", 0) + hist.get("ok:bbox", 0)
        cov["rule"] = ("picosvg documents produced by converting TLC-generated sources (paint/struct foci), "
                       "re-framed with %d viewBoxes of varying origin, size and aspect so that shapes lie "
                       "inside, outside and across every side and corner, through clip_to_viewbox; shape and "
                       "document bounding boxes of a catalogue with curve extrema strictly inside the control "
                       "polygon; non-trivial = something was painted outside the viewBox / a bbox was judged"
                       % len(VBS))
        for (kind, src, o), v in zip(meta, verdicts):
            if v == "ok:clipped" and len(cov["samples"]) < 1:
                cov["samples"].append({"kind": kind, "input": src, "verdict": v})
            if v == "ok:bbox" and len(cov["samples"]) < 2:
                cov["samples"].append({"kind": kind, "input": src, "verdict": v})
        if hist.get("ok:clipped", 0) < 20 or hist.get("ok:bbox", 0) < 10:
            raise common.MachineryError("vacuous run: %r" % hist)
        for (kind, src, o), v in zip(meta, verdicts):
            if v.startswith("BAD"):
                out.violation("C19/" + v.split(":", 1)[1].split("@")[0], "TLC rejected trace: " + v,
                              {"kind": kind, "input": src, "output": o, "verdict": v})
    finally:
        common.cleanup(wd)


def replay(path):
    w = json.load(open(path))["witness"]
    print(w)
    return 0
