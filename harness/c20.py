"""C20 — a reported reuse transform really maps one shape onto the other (spec/TraceReuse.tla)."""
import json
import random
from fractions import Fraction as F

from . import common

# shapes as lists of contours; a contour = (start, [segments]); segment = ("L", p) | ("Q", c, p) | ("C", c1, c2, p)
SHAPES = {
    "tri": [((1, 1), [("L", (6, 2)), ("L", (3, 7)), ("Z",)])],
    "quad": [((0, 0), [("L", (5, 0)), ("L", (6, 4)), ("L", (1, 3)), ("Z",)])],
    "ell": [((1, 1), [("L", (7, 1)), ("L", (7, 3)), ("L", (3, 3)), ("L", (3, 8)), ("L", (1, 8)), ("Z",)])],
    "curvy": [((1, 4), [("C", (1, 1), (5, 0), (6, 3)), ("Q", (8, 6), (4, 8)), ("L", (2, 7)), ("Z",)])],
    "blob": [((2, 2), [("Q", (6, 0), (8, 3)), ("Q", (9, 7), (5, 8)), ("Q", (0, 7), (2, 2)), ("Z",)])],
    "holed": [((0, 0), [("L", (8, 0)), ("L", (8, 8)), ("L", (0, 8)), ("Z",)]),
              ((2, 2), [("L", (2, 5)), ("L", (6, 5)), ("L", (6, 2)), ("Z",)])],
    "open": [((1, 2), [("L", (4, 6)), ("C", (5, 8), (8, 8), (9, 3))])],
    "pill": [((2, 1), [("L", (6, 1)), ("A", 2, 2, 0, 0, 1, (8, 3)), ("L", (8, 7)), ("A", 2, 2, 0, 0, 1, (6, 9)),
                      ("L", (2, 9)), ("A", 2, 2, 0, 0, 1, (0, 7)), ("L", (0, 3)), ("A", 2, 2, 0, 0, 1, (2, 1)), ("Z",)])],
    # decimal coordinates, outline closed by an explicit last segment back to the start (and then Z)
    "triDec": [((F(11, 10), F(13, 10)), [("L", (F(62, 10), F(24, 10))), ("L", (F(33, 10), F(77, 10))),
                                        ("L", (F(11, 10), F(13, 10))), ("Z",)])],
    "curvyDec": [((F(101, 10), F(203, 10)), [("C", (F(101, 10), F(171, 10)), (F(152, 10), F(160, 10)), (F(163, 10), F(194, 10))),
                                            ("Q", (F(181, 10), F(226, 10)), (F(101, 10), F(203, 10))), ("Z",)])],
    "zig": [((0, 5), [("L", (2, 1)), ("L", (4, 5)), ("L", (6, 1)), ("L", (8, 5)), ("L", (8, 7)), ("L", (0, 7)), ("Z",)])],
}

TRANSFORMS = {
    "translate": (1, 0, 0, 1, F(3), F(-2)),
    "translate2": (1, 0, 0, 1, F(-5, 2), F(7, 4)),
    "rot90": (0, 1, -1, 0, 0, 0),
    "rot180+t": (-1, 0, 0, -1, 9, 4),
    "rot345": (F(3, 5), F(4, 5), F(-4, 5), F(3, 5), 1, 2),
    "scale2": (2, 0, 0, 2, 0, 0),
    "scale.5+t": (F(1, 2), 0, 0, F(1, 2), 3, 3),
    "scale2x1": (2, 0, 0, 1, 0, 0),
    "scale1x3+t": (1, 0, 0, 3, -1, 2),
    "mirrorx": (-1, 0, 0, 1, 10, 0),
    "mirrory+rot": (0, 1, 1, 0, 0, 0),
    "shear": (1, 0, 1, 1, 0, 0),
    "general": (F(3, 2), F(1, 2), F(-1, 2), 2, 1, -1),
    "rot345scale": (F(6, 5), F(8, 5), F(-8, 5), F(6, 5), 0, 1),
}


def tf(A, p):
    a, b, c, d, e, f = A
    return (a * p[0] + c * p[1] + e, b * p[0] + d * p[1] + f)


def apply(A, shape):
    out = []
    for start, segs in shape:
        out.append((tf(A, start), [(s[:6] + (tf(A, s[6]),)) if s[0] == "A" else
                                   tuple([s[0]] + [tf(A, p) for p in s[1:]]) for s in segs]))
    return out


def perturb(shape, which, delta):
    """move one coordinate of the which-th point by delta"""
    out, k = [], 0
    for start, segs in shape:
        nsegs = []
        for s in segs:
            pts = []
            for p in (s[6:] if s[0] == "A" else s[1:]):
                k += 1
                pts.append((p[0] + delta, p[1]) if k == which else p)
            nsegs.append((s[:6] + tuple(pts)) if s[0] == "A" else tuple([s[0]] + pts))
        out.append((start, nsegs))
    return out


def d_of(shape):
    parts = []
    for start, segs in shape:
        parts.append("M%r,%r" % (float(start[0]), float(start[1])))
        for s in segs:
            if s[0] == "Z":
                parts.append("Z")
            elif s[0] == "A":
                parts.append("A%r %r %r %d %d %r,%r" % (float(s[1]), float(s[2]), float(s[3]), s[4], s[5],
                                                        float(s[6][0]), float(s[6][1])))
            else:
                parts.append(s[0] + " ".join("%r,%r" % (float(p[0]), float(p[1])) for p in s[1:]))
    return " ".join(parts)


_UNIT = [1000]


def mil(v):
    return int(round(float(v) * _UNIT[0]))


def rel_form(shape, unit=1000):
    _UNIT[0] = unit
    try:
        return _rel_form(shape)
    finally:
        _UNIT[0] = 1000


def _rel_form(shape):
    """first move + segments as vectors from each segment's start (what the relative commands hold)"""
    segs = []
    first = shape[0][0]
    cur = first
    prev_start = first
    for ci, (start, ss) in enumerate(shape):
        if ci > 0:
            segs.append(["m", mil(start[0] - cur[0]), mil(start[1] - cur[1])])
        cur = start
        sub = start
        for s in ss:
            if s[0] == "Z":
                segs.append(["z"])
                cur = sub
                continue
            if s[0] == "A":
                # <<"A", dx, dy>> : end point vector; the radii go in a parallel list (circular arcs only)
                segs.append(["A", mil(s[6][0] - cur[0]), mil(s[6][1] - cur[1])])
                cur = s[6]
                continue
            vec = [s[0]]
            for p in s[1:]:
                vec += [mil(p[0] - cur[0]), mil(p[1] - cur[1])]
            segs.append(vec)
            cur = s[-1]
    radii = [[mil(s[1]), mil(s[2])] for _, ss in shape for s in ss if s[0] == "A"]
    flags = [[int(s[4]), int(s[5])] for _, ss in shape for s in ss if s[0] == "A"]
    rots = [int(round(float(s[3]))) % 180 for _, ss in shape for s in ss if s[0] == "A"]
    return {"m": [mil(first[0]), mil(first[1])], "segs": segs, "radii": radii, "flags": flags, "rots": rots}


def job(j):
    from picosvg.svg_reuse import affine_between
    from picosvg.svg_types import SVGPath
    s1, s2, tol, expect, label = j[:5]
    d1 = j[5] if len(j) > 5 else d_of(s1)
    d2 = j[6] if len(j) > 6 else d_of(s2)
    fine = label.startswith("fine:")
    rec = {"k": "ok", "t": "", "s1": rel_form(s1), "s2": rel_form(s2), "tol": mil(tol), "A": [], "expect": expect,
           "fine": 0, "E": []}
    if fine:
        # large coordinates / small tolerance: coordinates x 10^4, linear part x 10^8, translation x 10^4
        rec.update({"fine": 1, "s1": rel_form(s1, 10000), "s2": rel_form(s2, 10000), "tol": int(round(tol * 10000))})
    try:
        A = affine_between(SVGPath(d=d1), SVGPath(d=d2), tol)
        if A is not None and fine:
            rec["A"] = [int(round(v * 10 ** 8)) for v in A[:4]]
            rec["E"] = [int(round(A[4] * 10 ** 4)), int(round(A[5] * 10 ** 4))]
            if any(abs(v) > 2 ** 31 - 2 for v in rec["A"] + rec["E"]):
                rec["k"], rec["t"], rec["A"], rec["E"] = "exc", "matrix-out-of-range", [], []
        elif A is not None:
            vals = [v * 10000 for v in A]
            if any(abs(v) > 4e8 for v in vals):
                rec["k"], rec["t"] = "exc", "matrix-out-of-range"
            else:
                rec["A"] = [int(round(v)) for v in vals]
    except Exception as e:  # noqa
        rec["k"], rec["t"] = "exc", type(e).__name__
    return rec


def jobs_for(tier, rng):
    jobs = []
    tols = [0.01, 0.1, 1.0]
    names = list(SHAPES)
    for n in names:
        s = SHAPES[n]
        npts = sum((1 if seg[0] == "A" else len(seg) - 1) for _, segs in s for seg in segs)
        for tol in tols:
            jobs.append((s, s, tol, "identity", "%s=self" % n))
            for tn, A in TRANSFORMS.items():
                if n == "pill" and not (tn.startswith("translate") or tn.startswith("rot90") or tn.startswith("rot180")
                                        or tn == "rot345" or tn.startswith("mirror")):
                    continue
                t = apply(A, s)
                if n == "pill" and tn.startswith("mirror"):
                    t = [(st, [(sg[:5] + (1 - sg[5],) + sg[6:]) if sg[0] == "A" else sg for sg in sgs]) for st, sgs in t]
                jobs.append((s, t, tol, "found" if tn.startswith("translate") else "any", "%s->%s" % (n, tn)))
                # near misses: one coordinate off by 1.5 tol / 0.5 tol
                for which in ([1, npts] if tier == "quick" else range(1, npts + 1)):
                    for fct in (1.5, 3.0, 0.5):
                        jobs.append((s, perturb(t, which, F(fct) * F(tol).limit_denominator(1000)), tol, "any",
                                     "%s->%s miss%s@%d" % (n, tn, fct, which)))
    # same vertices, wrong arc radii: a rotation / translation must not be reported for these
    for tn in ("translate", "rot90", "rot345", "rot180+t"):
        t = apply(TRANSFORMS[tn], SHAPES["pill"])
        for fct in (F(3, 5), F(4, 5), F(3, 2)):
            wrong = [(st, [(sg[:1] + (sg[1] * fct, sg[2] * fct) + sg[3:]) if sg[0] == "A" else sg for sg in sgs])
                     for st, sgs in t]
            for tol in tols:
                jobs.append((SHAPES["pill"], wrong, tol, "any", "pill->%s radii x%s" % (tn, fct)))
    # same vertices and radii, wrong arc flags: a mirror image has its sweep flags flipped, anything else
    # keeps them, the large-arc flag never changes - whatever the tolerance
    def reflag(shape, large=False, sweep=False):
        return [(st, [(sg[:4] + ((1 - sg[4]) if large else sg[4], (1 - sg[5]) if sweep else sg[5]) + sg[6:])
                      if sg[0] == "A" else sg for sg in sgs]) for st, sgs in shape]
    for tn in ("translate", "rot90", "rot345", "mirrorx", "mirrory+rot"):
        t = apply(TRANSFORMS[tn], SHAPES["pill"])          # (flags as in the source: right unless mirrored)
        mirrored = tn.startswith("mirror")
        for tol in tols:
            jobs.append((SHAPES["pill"], reflag(t, sweep=not mirrored), tol, "any", "pill->%s sweep-wrong" % tn))
            jobs.append((SHAPES["pill"], reflag(t, large=True, sweep=mirrored), tol, "any", "pill->%s large-wrong" % tn))
    extra_contour = ((20, 20), [("L", (24, 20)), ("L", (22, 25)), ("Z",)])
    for n in names:
        s = SHAPES[n]
        for tn in ("translate", "rot90", "scale2"):
            t = apply(TRANSFORMS[tn], s)
            for tol in tols:
                jobs.append((s, t + [extra_contour], tol, "any", "%s->%s+contour" % (n, tn)))
                jobs.append((s + [extra_contour], t, tol, "any", "%s+contour->%s" % (n, tn)))
                if t[0][1][-1] == ("Z",):
                    longer = [(t[0][0], t[0][1][:-1] + [("L", (30, 31)), ("Z",)])] + t[1:]
                    jobs.append((s, longer, tol, "any", "%s->%s+edge" % (n, tn)))
    for a in names:
        for b in names:
            if a != b:
                for tol in tols:
                    jobs.append((SHAPES[a], SHAPES[b], tol, "any", "%s vs %s" % (a, b)))
    # the same outline at the same place, spelled differently (H/V, relative commands): still the identity,
    # also for thin shapes none of whose edges is "significant" in x
    def respell(shape):
        parts = []
        for start, segs in shape:
            parts.append("M%r,%r" % (float(start[0]), float(start[1])))
            cur = start
            for sg in segs:
                if sg[0] == "Z":
                    parts.append("z")
                    continue
                if sg[0] == "L" and sg[1][0] == cur[0]:
                    parts.append("v%r" % float(sg[1][1] - cur[1]))
                elif sg[0] == "L" and sg[1][1] == cur[1]:
                    parts.append("H%r" % float(sg[1][0]))
                elif sg[0] == "L":
                    parts.append("l%r,%r" % (float(sg[1][0] - cur[0]), float(sg[1][1] - cur[1])))
                else:
                    return None
                cur = sg[1]
        return " ".join(parts)
    thin = {"vbar": [((5, 1), [("L", (5, 9))])], "hair": [((5, 1), [("L", (5, 9)), ("L", (F(51, 10), 9)), ("L", (F(51, 10), 1)), ("Z",)])],
            "ell": SHAPES["ell"], "zig": SHAPES["zig"]}
    for n, sh in thin.items():
        d2 = respell(sh)
        if d2:
            for tol in tols + [0.5]:
                jobs.append((sh, sh, tol, "identity-or-any", "%s=respelled" % n, d_of(sh), d2))
    # a NON-circular arc: under quarter turns and axis mirrors the ellipse's axes turn with the shape
    # (radii swapped or x-axis-rotation 90 for the quarter turns); a report for a target whose ellipse
    # kept its axes is a report for another outline (TraceReuse EllipseAgree)
    egg = [((0, 0), [("A", 10, 5, 0, 0, 1, (8, 6)), ("L", (5, 10)), ("Z",)])]
    def reaxis(shape, swap=False, rot=0, sweepflip=False):
        return [(st, [((sg[0],) + ((sg[2], sg[1]) if swap else (sg[1], sg[2])) + (rot, sg[4], (1 - sg[5]) if sweepflip else sg[5]) + sg[6:])
                      if sg[0] == "A" else sg for sg in sgs]) for st, sgs in shape]
    for tn in ("translate", "rot90", "rot180+t", "mirrorx", "mirrory+rot"):
        t = apply(TRANSFORMS[tn], egg)
        quarter = tn in ("rot90", "mirrory+rot")
        mirror = tn.startswith("mirror")
        for tol in tols:
            # the true image, spelled with swapped radii / with rotation 90; and the outline whose ellipse did not turn
            jobs.append((egg, reaxis(t, swap=quarter, sweepflip=mirror), tol, "found" if tn == "translate" else "any",
                         "egg->%s true-image" % tn))
            if quarter:
                jobs.append((egg, reaxis(t, rot=90, sweepflip=mirror), tol, "any", "egg->%s true-image rot90-spelling" % tn))
                jobs.append((egg, reaxis(t, sweepflip=mirror), tol, "any", "egg->%s axes-not-turned" % tn))
            else:
                jobs.append((egg, reaxis(t, swap=True, sweepflip=mirror), tol, "any", "egg->%s axes-turned-wrongly" % tn))
    # shorthand after a curve of the OTHER family (s after q, t after c): no reflection, the first control
    # point is the current point (SVG 8.3.6/8.3.7); the explicit spelling of the same outline, translated,
    # must be found
    mixed = {
        "q-then-s": ([((0, 0), [("Q", (2, 3), (4, 0)), ("C", (4, 0), (7, 2), (9, 0)), ("L", (4, -5)), ("Z",)])],
                     "M0,0 q2,3 4,0 s3,2 5,0 l-5,-5 z"),
        "c-then-t": ([((0, 0), [("C", (1, 2), (3, 2), (4, 0)), ("Q", (4, 0), (9, 1)), ("L", (4, -5)), ("Z",)])],
                     "M0,0 c1,2 3,2 4,0 t5,1 l-5,-6 z"),
    }
    for n, (sh, dsh) in mixed.items():
        for tn in ("translate", "translate2"):
            t = apply(TRANSFORMS[tn], sh)
            for tol in tols:
                jobs.append((sh, t, tol, "found", "%s shorthand->%s explicit" % (n, tn), dsh, d_of(t)))
                jobs.append((t, sh, tol, "found", "%s explicit->%s shorthand" % (n, tn), d_of(t), dsh))
    # the same NUMBERS under relative letters are another outline (vertices are running sums): whatever is
    # reported for (absolute spelling, relative spelling of the same numbers) must map onto that outline
    for n in names:
        sh = SHAPES[n]
        if not all(sg[0] in ("L", "Z") for _, sgs in sh for sg in sgs) or len(sh) != 1:
            continue
        start, segs = sh[0]
        cur, segs2, parts = start, [], ["M%r,%r" % (float(start[0]), float(start[1]))]
        for sg in segs:
            if sg[0] == "Z":
                segs2.append(sg)
                parts.append("z")
            else:
                cur = (cur[0] + sg[1][0], cur[1] + sg[1][1])
                segs2.append(("L", cur))
                parts.append("l%r,%r" % (float(sg[1][0]), float(sg[1][1])))
        other = [(start, segs2)]
        for tol in tols:
            jobs.append((sh, other, tol, "any", "%s vs same-numbers-relative" % n, d_of(sh), " ".join(parts)))
            jobs.append((other, sh, tol, "any", "same-numbers-relative vs %s" % n, " ".join(parts), d_of(sh)))
    # the fine regime: coordinates up to ~1000, tolerance 0.001, transforms with irrational entries (no
    # short decimal rounding of the matrix is exact, so the library's own verification of its roundings
    # is what keeps the result sound)
    import math
    fine_tfs = {}
    for deg in (30, 17, 101):
        c, sn = math.cos(math.radians(deg)), math.sin(math.radians(deg))
        fine_tfs["rot%d" % deg] = (c, sn, -sn, c, 3.0, -2.0)
    fine_tfs["scale-sqrt2"] = (math.sqrt(2), 0, 0, math.sqrt(2), 1.0, 1.0)
    fine_tfs["mirror-scale"] = (-math.sqrt(3) / 2, 0.5 * 1.1, 0.5, math.sqrt(3) / 2 * 1.1, 7.0, 0.0)
    fine_tfs["translate"] = (1, 0, 0, 1, 12.5, -7.25)
    for n in names:
        if n == "pill":
            continue
        for k in (20, 100):
            s = apply((k, 0, 0, k, 0, 0), SHAPES[n])
            for tn, A in fine_tfs.items():
                jobs.append((s, apply(A, s), 0.001, "found" if tn == "translate" else "any",
                             "fine:%sx%d->%s" % (n, k, tn)))
    return jobs


def run(out, tier):
    rng = random.Random(common.seed())
    wd = common.workdir("c20")
    try:
        jobs = jobs_for(tier, rng)
        recs = common.pmap(job, jobs, chunksize=32)
        verdicts, st, tr = common.validate_traces("TraceReuse", "TraceReuse.cfg", recs, wd, chunk=50000)
        cov = out.coverage
        cov["states"] += st
        cov["transitions"] += tr
        cov["traces_validated_against_impl"] += len(recs)
        cov["evaluations"] += len(recs)
        hist = {}
        for v in verdicts:
            hist[v] = hist.get(v, 0) + 1
        cov["parts"]["verdict_histogram"] = hist
        cov["distinct_nontrivial"] = hist.get("ok:sound", 0)
        cov["rule"] = ("pairs (s, T(s)) for %d shapes (polygons, curves, holes, open) x %d exact rational transforms "
                       "(translations, quarter and 3-4-5 rotations, uniform / non-uniform scalings, mirrorings, "
                       "shear, general) x tolerances 0.01/0.1/1, near misses with one coordinate off by 0.5, 1.5 and "
                       "3 tolerances, all ordered pairs of unrelated shapes, identical pairs; a fine regime (coordinates up to "
                       "1000, tolerance 0.001, rotations by 30/17/101 degrees, scale sqrt 2, mirror with scale) judged "
                       "with exact double-width products; non-trivial = a "
                       "transform was reported and TLC checked MapsOnto" % (len(SHAPES), len(TRANSFORMS)))
        for j, v in zip(jobs, verdicts):
            if v == "ok:sound" and "rot345" in j[4] and len(cov["samples"]) < 2:
                cov["samples"].append({"pair": j[4], "tol": j[2], "s1": d_of(j[0]), "s2": d_of(j[1]), "verdict": v})
        if hist.get("ok:sound", 0) < 50 or not hist.get("ok:none"):
            raise common.MachineryError("vacuous run: %r" % hist)
        # the double-width arithmetic of the fine regime, as polynomial identities over Int: TLAPS + Z3
        import os, re, shutil, subprocess
        pdir = os.path.join(wd, "proofs")
        os.makedirs(pdir)
        shutil.copy(os.path.join(common.SPEC, "proofs", "WideMul.tla"), pdir)
        try:
            p = subprocess.run(["tlapm", "--cleanfp", "WideMul.tla"], cwd=pdir, stdout=subprocess.PIPE,
                               stderr=subprocess.STDOUT, text=True, timeout=900)
            m = re.search(r"All (\d+) obligations proved", p.stdout)
            cov["obligations"] = int(m.group(1)) if m else 0
            cov["discharged"] = int(m.group(1)) if m else 0
            cov["checker_cmd"] = "tlapm --cleanfp spec/proofs/WideMul.tla"
            cov["trusted_base"] = ["tlapm 1.6.0-pre", "Z3 back end", "SANY"]
            if not m:
                raise common.MachineryError("TLAPS did not discharge WideMul.tla:\n" + p.stdout[-1500:])
        except (OSError, subprocess.TimeoutExpired) as e:
            raise common.MachineryError("tlapm failed: %s" % e)
        for j, v in zip(jobs, verdicts):
            if v.startswith("BAD"):
                out.violation("C20/" + v.split(":", 1)[1] + "/" + j[4].split(" ")[0].split("->")[-1].split("=")[0],
                              "TLC rejected trace: " + v,
                              {"pair": j[4], "tol": j[2], "s1": d_of(j[0]), "s2": d_of(j[1]), "verdict": v})
    finally:
        common.cleanup(wd)


def replay(path):
    print(json.load(open(path))["witness"])
    return 0
