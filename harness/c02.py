"""C02 — flattening groups, transforms, use and nested svg preserves the rendering."""
from . import common, render


def classify(rec, v):
    if render.use_target_value_lost(rec["doc"]):
        return "C02/use-target-explicit-inherited-value-lost"
    return "C02/render-mismatch"


def inverse_use_family():
    docs = []
    pairs = [([["translate", 3, 1]], {"g": [-3, -1], "tf": None}), ([["translate", 3, 1]], {"g": [0, 0], "tf": [["translate", -3, -1]]}),
             ([["scale", 2, 2, 1]], {"g": [0, 0], "tf": [["scale", 1, 1, 2]]}), ([["scale", 2, 1, 1]], {"g": [0, 0], "tf": [["scale", 1, 2, 2]]}),
             ([["rotate", 90, 8, 8]], {"g": [0, 0], "tf": [["rotate", 270, 8, 8]]}),
             ([["matrix", 0, 1, 1, 0, 0, 0]], {"g": [0, 0], "tf": [["matrix", 0, 1, 1, 0, 0, 0]]}),
             ([["translate", -2, 2]], {"g": [2, -2], "tf": None}), ([["scale", -1, 1, 1]], {"g": [0, 0], "tf": [["scale", -1, 1, 1]]})]
    for ttf, u in pairs:
        for target in (("rect", [2, 3, 5, 4, -1, -1]), ("polygon", [2, 2, 12, 3, 5, 11])):
            for in_defs in (False, True):
                nodes = []
                if in_defs:
                    nodes.append({"d": 1, "tag": "defs", "id": "", "at": [], "g": [], "ref": ""})
                nodes.append({"d": 2 if in_defs else 1, "tag": target[0], "id": "t", "g": target[1], "ref": "",
                              "at": [["fill", "red", 0], ["transform", ttf, 0]]})
                nodes.append({"d": 1, "tag": "use", "id": "", "g": u["g"], "ref": "t",
                              "at": [["fill", "blue", 0]] + ([["transform", u["tf"], 0]] if u["tf"] else [])})
                docs.append({"vb": [0, 0, 16, 16], "view": [0, 0, 16, 16], "root": [], "nodes": nodes})
    return docs


def run(out, tier):
    wd = common.workdir("c02")
    try:
        recs, texts, verdicts = render.run_render(out, "C02", "struct", tier, 1200, 12000, wd=wd,
                                                  extra_docs=inverse_use_family())
        cov = out.coverage
        cov["rule"] = ("documents drawn by TLC -simulate from Build.tla (Focus=struct: 7 basic shapes + "
                       "paths with relative commands, nested groups, transform lists, defs, use with "
                       "x/y/transform, nested svg with viewBox/preserveAspectRatio/overflow, "
                       "display:none); non-trivial = the source paints something and TLC compared "
                       "source and output stacks on the half-unit sample lattice")
        for (svg, res), v in zip(texts, verdicts):
            if v == "ok:render" and len(cov["samples"]) < 2:
                cov["samples"].append({"svg": svg, "verdict": v})
        if cov["distinct_nontrivial"] < len(recs) // 4:
            raise common.MachineryError("vacuous run: %r" % cov["parts"])
        for rec, (svg, res), v in zip(recs, texts, verdicts):
            if v.startswith("BAD"):
                out.violation(classify(rec, v), "TLC rejected trace: " + v,
                              {"svg": svg, "output": res, "verdict": v})
    finally:
        common.cleanup(wd)


def replay(path):
    import json
    print(json.load(open(path))["witness"]["svg"])
    return 0
