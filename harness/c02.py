"""C02 — flattening groups, transforms, use and nested svg preserves the rendering."""
from . import common, render


def classify(rec, v):
    if render.use_target_value_lost(rec["doc"]):
        return "C02/use-target-explicit-inherited-value-lost"
    return "C02/render-mismatch"


def run(out, tier):
    wd = common.workdir("c02")
    try:
        recs, texts, verdicts = render.run_render(out, "C02", "struct", tier, 1200, 12000, wd=wd)
        cov = out.coverage
        cov["rule"] = ("documents drawn by TLC -simulate from Build.tla (Focus=struct: 7 basic shapes + "
                       "paths with relative commands, nested groups, transform lists, defs, use with "
                       "x/y/transform, nested svg with viewBox/preserveAspectRatio/overflow, "
                       "display:none); non-trivial = the source paints something and TLC compared "
                       "source and output stacks on the half-unit sample lattice")
        for (svg, res), v in zip(texts, verdicts):
            if v == "ok:render" and len(cov["samples"]) < 2:
                cov["samples"].append({"svg": svg, "verdict": v})
        if cov["distinct_nontrivial"] < len(recs) // 4:
            raise common.MachineryError("vacuous run: %r" % cov["parts"])
        for rec, (svg, res), v in zip(recs, texts, verdicts):
            if v.startswith("BAD"):
                out.violation(classify(rec, v), "TLC rejected trace: " + v,
                              {"svg": svg, "output": res, "verdict": v})
    finally:
        common.cleanup(wd)


def replay(path):
    import json
    print(json.load(open(path))["witness"]["svg"])
    return 0
