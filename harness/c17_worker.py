"""Worker for C17: converts the jobs of a file one by one under the watchdog; prints
"START <i>" before and "DONE <i> <json>" after each, so that the supervisor knows which
document was being converted if this process dies."""
import json
import os
import sys

sys.path.insert(0, os.path.dirname(os.path.dirname(os.path.abspath(__file__))))


def main():
    from harness import c17

    c17._init_worker()
    jobs = json.load(open(sys.argv[1]))
    start = int(sys.argv[2])
    for i in range(start, len(jobs)):
        print("START %d" % i, flush=True)
        rec = c17.convert_watched(tuple(jobs[i]))
        print("DONE %d %s" % (i, json.dumps(rec)), flush=True)


if __name__ == "__main__":
    main()
