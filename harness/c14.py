"""C14 — content that renderers ignore never influences the converted document.

Build.tla draws the base documents, Noise.tla enumerates every single noise insertion at every
tree position (BFS), both are converted by the real code, TraceNoise.tla judges Equiv."""
import json
import os

from . import common, doc as D


def _conv(job):
    svg, opts = job
    r = D.convert(svg, **opts)
    if r[0] != "ok":
        return {"k": "exc", "t": r[1]}, r[1] + ": " + r[2]
    try:
        proj, _ = D.structure(r[1])
    except Exception as e:  # noqa
        return {"k": "exc", "t": "projection:" + type(e).__name__}, r[1]
    return {"k": "ok", "out": proj}, r[1]


def features(d):
    """structural features of a document that noise could interact with"""
    fs = set()
    ids = {nd["id"]: nd for nd in d["nodes"] if nd.get("id")}
    for nd in d["nodes"]:
        fs.add("tag:" + nd["tag"])
        for name, v, via in nd["at"]:
            fs.add("attr:%s:%d" % (name, via))
            if name == "clip-path":
                fs.add("clipref")
                if v in ids and any(a[0] == "clip-path" for a in ids[v]["at"]):
                    fs.add("clip-of-clip")
            if name == "opacity" and nd["tag"] == "g" and v in (1, 2):
                fs.add("opacity-group")
            if name == "fill" and isinstance(v, str) and v.startswith("url("):
                fs.add("gradref")
                g = ids.get(v[5:-1])
                if g is not None and g.get("ref"):
                    fs.add("gradref-with-href")
                    if not g["g"]:
                        fs.add("gradref-href-no-own-stops")
        if nd["tag"] == "use":
            fs.add("use->" + ids.get(nd["ref"], {}).get("tag", "?"))
    # an explicit initial value under an ancestor that sets the property differently (a wrapper group
    # inserted in between must not make the explicit value look redundant)
    from .render import DEFAULTS, _parents, _spec
    par = _parents(d)
    # gradients sitting directly in defs (a wrapper group then changes their path from defs)
    for i, nd in enumerate(d["nodes"]):
        if nd["tag"] in ("linearGradient", "radialGradient") and par[i] is not None \
                and d["nodes"][par[i]]["tag"] == "defs":
            fs.add("defs>gradient")
            if nd.get("ref"):
                fs.add("defs>gradient-with-href")
                t = ids.get(nd["ref"])
                if t is not None:
                    j = d["nodes"].index(t)
                    if par[j] is not None and d["nodes"][par[j]]["tag"] == "defs":
                        fs.add("defs>gradient-with-href>defs-template")
                    if any(a[0] == "gradientTransform" for a in t["at"]) or \
                            any(a[0] == "gradientUnits" for a in t["at"]):
                        fs.add("href-template-with-transform-or-units")
            if any(n2.get("ref") == nd.get("id") and n2["tag"] != "use" for n2 in d["nodes"] if nd.get("id")):
                fs.add("defs>template")
    for i, nd in enumerate(d["nodes"]):
        for a in ("fill", "fill-rule", "fill-opacity", "stroke"):
            v = _spec(nd["at"], a)
            if v is not None and v == DEFAULTS.get(a):
                j = par[i]
                if j is not None:
                    w = _spec(d["nodes"][j]["at"], a)
                    if w is not None and w != v and a in ("fill", "stroke"):
                        # the effective case: a wrapper between the two makes the direct parent silent
                        fs.add("explicit-initial-vs-direct-parent:" + a)
                while j is not None:
                    w = _spec(d["nodes"][j]["at"], a)
                    if w is not None and w != v:
                        fs.add("explicit-initial-under-override:" + a)
                        fs.add("explicit-initial-under-override")
                    j = par[j]
    return fs


def template_family():
    """hand-written bases: a gradient inheriting units, transform and stops from a template, both
    directly in defs, in both document orders (noise inside defs then sits between / around them)"""
    def grad(gid, ref, at, stops):
        return {"d": 2, "tag": "linearGradient", "id": gid, "at": at, "g": stops, "ref": ref}
    tmpl = grad("ta", "", [["gradientUnits", "userSpaceOnUse", 0], ["x1", [1, 1, 0], 0], ["y1", [2, 1, 0], 0],
                           ["x2", [3, 1, 0], 0], ["y2", [4, 1, 0], 0],
                           ["gradientTransform", [["translate", 3, 1]], 0]], [[0, "red"], [100, "blue"]])
    user = grad("tb", "ta", [["x1", [0, 1, 0], 0], ["y1", [0, 1, 0], 0], ["x2", [8, 1, 0], 0],
                             ["y2", [0, 1, 0], 0]], [])
    shape = {"d": 1, "tag": "rect", "id": "", "at": [["fill", "url(#tb)", 0], ["fillref", "tb", 0]],
             "g": [1, 1, 12, 12, -1, -1], "ref": ""}
    shape2 = {"d": 1, "tag": "rect", "id": "", "at": [["fill", "url(#ta)", 0], ["fillref", "ta", 0]],
              "g": [2, 9, 9, 5, -1, -1], "ref": ""}
    defs = {"d": 1, "tag": "defs", "id": "", "at": [], "g": [], "ref": ""}
    res = []
    for order in ([user, tmpl], [tmpl, user]):
        for shapes in ([shape], [shape2, shape]):
            res.append({"vb": [0, 0, 16, 16], "view": [0, 0, 16, 16], "root": [],
                        "nodes": [defs] + order + shapes})
    return res


def text_family():
    """documents with text content, converted with allow_text (text passes through): character data is
    modelled as #chars nodes so that noise lands between any two chunks"""
    def el(d, tag, at=None):
        return {"d": d, "tag": tag, "id": "", "at": at or [], "g": [], "ref": ""}

    def ch(d, t):
        return {"d": d, "tag": "#chars", "id": "", "at": [], "g": [], "ref": "", "text": t}
    rect = {"d": 1, "tag": "rect", "id": "", "at": [["fill", "red", 0]], "g": [1, 1, 6, 5, -1, -1], "ref": ""}
    docs = []
    docs.append([rect, el(1, "text"), ch(2, "a"), ch(2, "b"), el(2, "tspan"), ch(3, "c"), ch(2, "d"), ch(2, "e")])
    docs.append([el(1, "g", [["opacity", 1, 0]]), dict(rect, d=2), el(2, "text", [["fill", "blue", 0]]), ch(3, "t"), ch(3, "u"),
                 dict(rect, d=1, g=[8, 8, 5, 5, -1, -1])])
    docs.append([el(1, "text"), ch(2, "k"), el(2, "tspan"), ch(3, "l"), el(3, "tspan"), ch(4, "m"), ch(3, "n"), ch(2, "o"), rect])
    return [{"vb": [0, 0, 16, 16], "view": [0, 0, 16, 16], "root": [], "nodes": n, "opts": {"allow_text": True}} for n in docs]


def run(out, tier):
    wd = common.workdir("c14")
    try:
        nbase = 6 if tier == "quick" else 60
        bases = []
        seen = set()
        # interactions that must get the exhaustive noise treatment whenever the pools offer them
        must = ["explicit-initial-vs-direct-parent:fill", "explicit-initial-vs-direct-parent:stroke",
                "explicit-initial-under-override", "gradref-with-href", "gradref-href-no-own-stops", "clipref",
                "clip-of-clip", "opacity-group", "defs>gradient-with-href", "use->g", "use->rect", "tag:svg",
                "tag:title", "tag:desc", "tag:metadata"]
        covered = set()
        for f in ["mixed", "grad", "clip", "paint", "struct", "stroke"]:
            docs, gens = D.generate_docs(f, nbase * 12, common.seed(), wd, max_nodes=7)
            for g in gens:
                out.add_tlc(g)
            pool = []
            for d in docs:
                key = json.dumps(d, sort_keys=True)
                if key in seen or len(d["nodes"]) < 3:
                    continue
                seen.add(key)
                pool.append(d)
            # feature-greedy choice of the base documents (which documents get the exhaustive
            # noise treatment is a coverage decision, not a judgement)
            have = set()
            for feat in must:
                if feat in covered:
                    continue
                cands = [d for d in pool if feat in features(d)]
                if cands:
                    best = max(cands, key=lambda d: len(features(d) - have))
                    pool.remove(best)
                    have |= features(best)
                    covered |= features(best) & set(must)
                    bases.append(best)
            for _ in range(nbase):
                best = max(pool, key=lambda d: len(features(d) - have), default=None)
                if best is None:
                    break
                pool.remove(best)
                have |= features(best)
                bases.append(best)
        bases.extend(template_family())
        bases.extend(text_family())
        path = os.path.join(wd, "bases.ndjson")
        common.write_ndjson(path, bases)
        r = common.tlc("Noise", "Noise.cfg", wd, env={"DOCS": path}, timeout=3600, heap="8g")
        out.add_tlc(r)
        variants = r.json_lines("CASE")
        base_svgs = [D.concretise(d) for d in bases]
        jobs = [(s_, d.get("opts", {})) for s_, d in zip(base_svgs, bases)] + \
               [(D.concretise(v["doc"], flags=v["flags"]), bases[v["base"] - 1].get("opts", {})) for v in variants]
        res = common.pmap(_conv, jobs)
        base_res = res[:len(bases)]
        recs, meta = [], []
        for v, (o, txt), (svg, _o) in zip(variants, res[len(bases):], jobs[len(bases):]):
            b = v["base"] - 1
            recs.append({"ai": b + 1, "b": o})
            meta.append((base_svgs[b], svg, v["kind"], v["pos"], base_res[b][1], txt))
        bpath = os.path.join(wd, "base_outcomes.ndjson")
        common.write_ndjson(bpath, [b[0] for b in base_res])
        verdicts, st, tr = common.validate_traces("TraceNoise", "TraceNoise.cfg", recs, wd, chunk=5000,
                                                  env={"BASES": bpath})
        cov = out.coverage
        cov["states"] += st
        cov["transitions"] += tr
        cov["traces_validated_against_impl"] += len(recs)
        cov["evaluations"] += len(recs)
        hist = {}
        kinds = {}
        for v, m in zip(verdicts, meta):
            hist[v] = hist.get(v, 0) + 1
            kinds[m[2]] = kinds.get(m[2], 0) + 1
        cov["parts"]["verdict_histogram"] = hist
        cov["parts"]["noise_kinds"] = kinds
        cov["parts"]["base_documents"] = len(bases)
        cov["distinct_nontrivial"] = hist.get("ok:equivalent", 0)
        cov["exhaustive"] = True
        cov["rule"] = ("base documents drawn by TLC from Build.tla (all foci); for each, Noise.tla "
                       "enumerates exhaustively every single insertion of comment, PI, title, desc, "
                       "metadata, foreign element, anonymous symbol with content at every pre-order "
                       "position and depth, every attribute-less wrapper group around one or two "
                       "siblings, a foreign attribute on every element, inter-element whitespace and "
                       "an XML declaration; non-trivial = both conversions returned and TLC compared "
                       "them with Equiv")
        for m, v in zip(meta, verdicts):
            if v == "ok:equivalent" and len(cov["samples"]) < 2:
                cov["samples"].append({"base": m[0], "noisy": m[1], "kind": m[2], "verdict": v})
        if cov["distinct_nontrivial"] < len(recs) // 3:
            raise common.MachineryError("vacuous run: %r" % hist)
        for m, v in zip(meta, verdicts):
            if v.startswith("BAD"):
                out.violation("C14/" + v.split(":", 1)[1] + "/" + m[2], "TLC rejected trace: " + v,
                              {"base": m[0], "noisy": m[1], "kind": m[2], "pos": m[3],
                               "out_base": m[4], "out_noisy": m[5], "verdict": v})
    finally:
        common.cleanup(wd)


def replay(path):
    w = json.load(open(path))["witness"]
    for k in ("base", "noisy"):
        print(w[k])
        print(D.convert(w[k]))
    return 0
