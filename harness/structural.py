"""Shared driver for the structural properties C01, C07, C08 (spec/TraceDoc.tla)."""
import glob
import hashlib
import json
import os

from . import common, doc as D

OPTS_QUICK = [(3, 0, 0), (0, 0, 1), (1, 1, 0), (2, 1, 1), (6, 0, 0), (4, 0, 1), (5, 1, 0), (3, 1, 1)]
OPTS_ALL = [(nd, a, d) for nd in range(7) for a in (0, 1) for d in (0, 1)]
FOCI = ["mixed", "grad", "stroke", "paint", "clip", "struct"]


def sources(tier, wd, out, per_focus_quick=250, per_focus_thorough=1200, foci=FOCI):
    """[(name, svg_text, adoc or None)]"""
    res = []
    n = per_focus_quick if tier == "quick" else per_focus_thorough
    seen = set()
    for f in foci:
        docs, gens = D.generate_docs(f, n, common.seed(), wd, max_nodes=8)
        for g in gens:
            out.add_tlc(g)
        for d in docs:
            svg = D.concretise(d)
            if svg in seen:
                continue
            seen.add(svg)
            res.append((f, svg, d))
    import itertools
    idsets = [["ga", "gb", "gc"], ["ga", "gb", "gc", "gd"], ["grad", "GRAD", "zed"], ["Ab", "aB", "ab", "b"]]
    for ids_ in idsets:
        for perm in itertools.permutations(ids_):
            defs = "".join('<linearGradient id="%s" x2="%d" gradientUnits="userSpaceOnUse"><stop offset="0" '
                           'stop-color="red"/><stop offset="1" stop-color="blue"/></linearGradient>' % (g, 3 + k)
                           for k, g in enumerate(perm))
            plain = ids_[0] not in ("ga",)      # the case-variant sets: every gradient survives as it is
            body = "".join('<rect x="%d" y="1" width="3" height="9" fill="url(#%s)"%s/>'
                           % (1 + 4 * k, g, ' transform="translate(0,%d)"' % k if (k % 2 and not plain) else "")
                           for k, g in enumerate(sorted(perm)))
            res.append(("family/gradient-order", '<svg xmlns="http://www.w3.org/2000/svg" viewBox="0 0 16 16">'
                        '<defs>%s</defs>%s</svg>' % (defs, body), None))
            if len(perm) == 4 and ids_[0] == "ga":
                # ... and with one of the four not used by any shape (it disappears, the others keep their order)
                unused = perm[1]
                body3 = "".join('<rect x="%d" y="1" width="3" height="9" fill="url(#%s)"/>' % (1 + 4 * k, g)
                                for k, g in enumerate(sorted(x for x in perm if x != unused)))
                res.append(("family/gradient-order", '<svg xmlns="http://www.w3.org/2000/svg" viewBox="0 0 16 16">'
                            '<defs>%s</defs>%s</svg>' % (defs, body3), None))
    unsupported = ['<image width="3" height="3"/>', '<text>t</text>', '<mask id="m"><rect width="2" height="2"/></mask>',
                   '<filter id="f"/>', '<foo:bar xmlns:foo="http://example.com/foo"/>',
                   '<foreignObject width="2" height="2"/>', '<a><rect width="2" height="2"/></a>',
                   '<switch><rect width="2" height="2"/></switch>']
    for u in unsupported:
        for body in ('<rect width="4" height="4" fill="red"/>%s', '%s<rect width="4" height="4"/>', '%s',
                     '<rect width="4" height="4"/><rect x="2" y="2" width="4" height="4" fill="blue"/>%s',
                     '<g opacity="0.5"><rect width="4" height="4"/>%s</g><rect x="6" width="3" height="3"/>'):
            res.append(("family/unsupported-in-group", '<svg xmlns="http://www.w3.org/2000/svg" viewBox="0 0 16 16">'
                        '<g opacity="0.5">%s</g><rect x="9" y="9" width="5" height="5"/></svg>' % (body % u), None))
    # character data outside text content (renderers ignore it; a picosvg has none)
    for body in ('<g opacity="0.5">abc<rect width="4" height="4"/>def<rect x="2" y="2" width="4" height="4"/>ghi</g>',
                 'top<rect width="4" height="4"/>tail', '<defs>x<linearGradient id="a">y<stop offset="0" stop-color="red"/>z</linearGradient></defs>'
                 '<rect width="4" height="4" fill="url(#a)"/>', '<rect width="4" height="4">inside</rect>',
                 '<g>a<g opacity="0.5">b<path d="M0,0 L4,0 L4,4 Z">c</path>d<rect x="5" width="3" height="3"/>e</g>f</g>'):
        res.append(("family/stray-character-data", '<svg xmlns="http://www.w3.org/2000/svg" viewBox="0 0 16 16">%s</svg>' % body, None))
    # stops that carry ids, the gradient cloned for transformed users (a clone must not repeat an id)
    for body in ('<rect width="5" height="5" fill="url(#a)"/><rect width="5" height="5" fill="url(#a)" transform="translate(6,0)"/>',
                 '<rect width="5" height="5" fill="url(#a)" transform="translate(0,6)"/><rect width="5" height="5" fill="url(#a)" transform="translate(6,0)"/>',
                 '<rect id="r" width="5" height="5" fill="url(#a)"/><use xlink:href="#r" x="6"/><use xlink:href="#r" y="6"/>'):
        res.append(("family/stop-ids", '<svg xmlns="http://www.w3.org/2000/svg" xmlns:xlink="http://www.w3.org/1999/xlink" viewBox="0 0 16 16">'
                    '<defs><linearGradient id="a" gradientUnits="userSpaceOnUse" x2="9"><stop id="stop831" offset="0" stop-color="red"/>'
                    '<stop id="stop833" offset="1" stop-color="blue"/></linearGradient></defs>%s</svg>' % body, None))
    # a gradient whose only user is passed-through text
    for body in ('<path fill="blue" d="M0,0 L5,0 L5,5 Z"/><text fill="url(#a)" x="1" y="12">hi</text>',
                 '<text x="1" y="12"><tspan fill="url(#a)">hi</tspan></text><rect width="3" height="3"/>',
                 '<path fill="url(#a)" d="M0,0 L5,0 L5,5 Z" opacity="0"/><text fill="url(#a)" x="1" y="12">hi</text><rect width="3" height="3"/>'):
        res.append(("family/text-gradient", '<svg xmlns="http://www.w3.org/2000/svg" viewBox="0 0 16 16"><defs><linearGradient id="a" '
                    'gradientUnits="userSpaceOnUse" x2="9"><stop offset="0" stop-color="red"/><stop offset="1" stop-color="blue"/>'
                    '</linearGradient></defs>%s</svg>' % body, None))
    # many digits requested: vertices a hair (around 1e-9) away from their subpath's start
    for d in ("M0,0 L8,0 L8,8 L0.0000000014,0 Z", "M2,2 L9,2 L9,9 L2.0000000009,2.0000000012 L2,2 Z",
              "M1,1 l5,0 l0,5 L1.0000000016,1 z M3,3 L4,3 L4,4 Z", "M0,0 L8,0 L8,8 L0.00000000051,0.0000000014 Z"):
        res.append(("family/high-precision", '<svg xmlns="http://www.w3.org/2000/svg" viewBox="0 0 16 16">'
                    '<path d="%s"/><rect x="9" y="9" width="5" height="5" fill="red"/></svg>' % d, None))
    # gradientTransform translations around the 6-digit rounding threshold (what is folded into the
    # coordinates and what stays in the matrix must not change from one pass to the next)
    for tx in ("0.0000016", "0.0000004", "0.00000051", "1.4e-6", "0.0000049", "0.000001"):
        for lin in ("3.5 0 0 3.5", "1 0 0 1", "0 2 -2 0"):
            res.append(("family/tiny-gradient-translation", '<svg xmlns="http://www.w3.org/2000/svg" viewBox="0 0 16 16"><defs>'
                        '<linearGradient id="g" gradientUnits="userSpaceOnUse" x1="1" y1="1" x2="3" y2="1" '
                        'gradientTransform="matrix(%s %s 0)"><stop offset="0" stop-color="red"/><stop offset="1" '
                        'stop-color="blue"/></linearGradient></defs><rect x="1" y="1" width="12" height="9" fill="url(#g)"/>'
                        '</svg>' % (lin, tx), None))
    # foreign namespaces declared on an inner element (the root declares only svg / xlink)
    stopd = ('<defs><linearGradient id="g" x2="0.5"><stop offset="0" stop-color="red" ed:swatch="Brand" '
             'xmlns:ed="urn:example:ed"/><stop offset="1" stop-color="blue"/></linearGradient></defs>')
    for body in (stopd + '<rect width="9" height="9" fill="url(#g)"/>',
                 stopd + '<rect width="9" height="9" fill="url(#g)" transform="translate(2,1)"/><rect width="3" height="3"/>',
                 '<app:g xmlns:app="urn:example:app" opacity="0.5"><rect width="4" height="4"/><rect x="2" y="2" width="4" height="4"/></app:g>',
                 '<g opacity="0.5"><rect width="4" height="4" app:layer="1" xmlns:app="urn:example:app"/><rect x="2" y="2" width="4" height="4"/></g>',
                 '<rect width="4" height="4"/><text x="1" y="9" app:k="v" xmlns:app="urn:example:app">t</text>',
                 '<rect width="4" height="4"/><app:path xmlns:app="urn:example:app" d="M0,0 L5,5 L0,5 Z"/>'):
        res.append(("family/inline-foreign-namespace", '<svg xmlns="http://www.w3.org/2000/svg" viewBox="0 0 16 16">%s</svg>' % body, None))
    # ids are XML names, not ASCII words
    for gid in ("Dégradé_sans_nom_2", "Безымянный_градиент", "渐变-3", "g.1", "_x-y"):
        for tf in ("", ' transform="translate(2,1)"'):
            res.append(("family/unicode-ids", '<svg xmlns="http://www.w3.org/2000/svg" viewBox="0 0 16 16"><defs>'
                        '<linearGradient id="%s" x2="0.5"><stop offset="0" stop-color="red"/><stop offset="1" stop-color="blue"/>'
                        '</linearGradient></defs><rect x="1" y="1" width="9" height="9" fill="url(#%s)"%s/>'
                        '<rect x="5" y="5" width="4" height="4"/></svg>' % (gid, gid, tf), None))
    # numbers Python prints in exponent form (no decimal point in the whole path data)
    for d in ('M0,0 L10,0 L10,0.00001 L0,10 Z', 'M0 0 L10 0 L10 1e-5 L0 10 Z', 'M2e-7 0 L10 0 L10 8 Z',
              'M0,0 L10,0 L10,0.00003 L0,10 Z M1,1 L2,1 L2,2 Z', 'M0 0 h10 v1e-05 L0 10 z',
              'M0,0 L12,0 L12,-0.00002 L0,9 Z'):
        for shell in ('<path d="%s"/>', '<g opacity="0.5"><path d="%s"/><rect x="3" y="3" width="4" height="4"/></g>',
                      '<path d="%s" fill="red"/><rect x="9" y="9" width="5" height="5"/>'):
            res.append(("family/exponent-numbers", '<svg xmlns="http://www.w3.org/2000/svg" viewBox="0 0 16 16">%s</svg>'
                        % (shell % d), None))
    # what may sit inside a <text> that allow_text lets through: text content only
    inner = ['t', '<tspan>a</tspan>b', '<textPath>p</textPath>', '<a>link</a>', 't<animate attributeName="x"/>',
             '<rect width="2" height="2"/>', '<tspan><image width="1" height="1"/></tspan>',
             '<a><tspan>x</tspan></a>', '<title>n</title>t']
    for t in inner:
        for shell in ('<rect width="4" height="4"/><text x="1" y="9">%s</text>',
                      '<g opacity="0.5"><rect width="4" height="4"/><text>%s</text></g>',
                      '<text fill="red">%s</text><text>u</text>'):
            res.append(("family/text-content", '<svg xmlns="http://www.w3.org/2000/svg" viewBox="0 0 16 16">%s</svg>'
                        % (shell % t), None))
    for path in sorted(glob.glob(os.path.join(common.REPO, "tests", "*.svg"))):
        try:
            res.append(("tests/" + os.path.basename(path), open(path).read(), None))
        except Exception:
            pass
    return res


def hsh(s):
    return hashlib.sha1(s.encode("utf-8")).hexdigest()[:16]


def convert_record(prop, svg, opt):
    from picosvg.svg import SVG

    nd, at, dr = opt
    kw = dict(ndigits=nd, allow_text=bool(at), drop_unsupported=bool(dr))
    rec = {"prop": prop, "nd": nd, "at": at, "dr": dr}
    r = D.convert(svg, **kw)
    if r[0] != "ok":
        msg = r[2]
        bad = 1 if ("BadElement" in msg and "reuses id" not in msg) else 0
        rec["r"] = {"k": "exc", "t": r[1], "bad": bad, "msg": msg[:120]}
        return rec, None
    o1 = r[1]
    try:
        proj, nrefs = D.structure(o1)
    except Exception as e:  # noqa
        rec["r"] = {"k": "exc", "t": "projection:" + type(e).__name__, "bad": 0}
        return rec, o1
    res = {"k": "ok", "out": proj, "nrefs": nrefs, "h": [hsh(o1)], "self": 0}
    if prop == "C07":
        res["out"] = {"nodes": []}
        cur = o1
        for _ in (2, 3):
            r2 = D.convert(cur, **kw)
            if r2[0] != "ok":
                res["h"].append("exc")
                break
            res["h"].append(hsh(r2[1]))
            cur = r2[1]
        try:
            res["self"] = len(SVG.fromstring(o1).checkpicosvg(allow_text=bool(at)))
        except Exception:
            res["self"] = -1
    rec["r"] = res
    return rec, o1


def _job(j):
    return convert_record(*j)


def cli_record(job):
    """the command line front end: file argument or stdin, flags, stdout or --output_file"""
    import subprocess
    import sys
    import tempfile

    svg, at, dr, mode = job
    rec = {"prop": "C01", "nd": 3, "at": at, "dr": dr}
    env = dict(os.environ, PYTHONPATH=os.path.join(common.REPO, "src"))
    with tempfile.TemporaryDirectory() as td:
        src = os.path.join(td, "in.svg")
        open(src, "w").write(svg)
        cmd = [sys.executable, "-m", "picosvg.picosvg"]
        if mode != "stdin":
            cmd.append(src)
        if at:
            cmd.append("--allow_text")
        if dr:
            cmd.append("--drop_unsupported")
        outp = os.path.join(td, "out.svg")
        if mode == "outfile":
            cmd += ["--output_file", outp]
        p = subprocess.run(cmd, env=env, input=svg if mode == "stdin" else None, stdout=subprocess.PIPE,
                           stderr=subprocess.PIPE, text=True, timeout=600)
        if p.returncode != 0:
            msg = p.stderr.strip().splitlines()[-1] if p.stderr.strip() else ""
            bad = 1 if ("BadElement" in msg and "reuses id" not in msg) else 0
            rec["r"] = {"k": "exc", "t": "cli-exit-%d" % p.returncode, "bad": bad, "msg": msg[:120]}
            return rec, None
        text = open(outp).read() if mode == "outfile" else p.stdout
    try:
        proj, nrefs = D.structure(text)
    except Exception as e:  # noqa
        rec["r"] = {"k": "exc", "t": "projection:" + type(e).__name__, "bad": 0}
        return rec, text
    rec["r"] = {"k": "ok", "out": proj, "nrefs": nrefs, "h": [hsh(text)], "self": 0}
    return rec, text


def run_structural(out, prop, tier, okverdicts, rule, classify, foci=FOCI, nq=250, nt=1200):
    wd = common.workdir(prop.lower())
    try:
        srcs = sources(tier, wd, out, nq, nt, foci)
        recs, meta = [], []
        jobs = []
        for i, (name, svg, adoc) in enumerate(srcs):
            if name == "family/high-precision":
                opts = [(9, 0, 0), (10, 0, 1), (12, 0, 0), (8, 0, 0)]
            elif name.startswith("family/"):
                opts = OPTS_QUICK
            elif tier == "quick":
                k = int(hsh(svg), 16)
                opts = [OPTS_QUICK[k % 8], OPTS_QUICK[(k // 8 + 3) % 8]] if prop != "C07" else [OPTS_QUICK[k % 8]]
            else:
                opts = OPTS_ALL if prop == "C01" else OPTS_QUICK
            for opt in dict.fromkeys(opts):
                jobs.append((prop, svg, opt))
                meta.append([name, svg, opt, None, adoc])
        for m, (rec, o1) in zip(meta, common.pmap(_job, jobs)):
            recs.append(rec)
            m[3] = o1
        if prop == "C01":
            # the CLI (its output is pretty-printed; same grammar)
            ncli = 48 if tier == "quick" else 600
            step = max(1, len(srcs) // ncli)
            cjobs, cmeta = [], []
            for k, (name, svg, adoc) in enumerate(srcs[::step][:ncli]):
                at, dr = (k // 3) % 2, (k // 6) % 2
                mode = ("file", "stdin", "outfile")[k % 3]
                cjobs.append((svg, at, dr, mode))
                cmeta.append(["cli-" + mode + ":" + name, svg, (3, at, dr), None, adoc])
            for m, (rec, o1) in zip(cmeta, common.tmap(cli_record, cjobs)):
                recs.append(rec)
                m[3] = o1
                meta.append(m)
            out.coverage["parts"]["cli_runs"] = len(cjobs)
        verdicts, st, tr = common.validate_traces("TraceDoc", "TraceDoc.cfg", recs, wd, chunk=4000)
        cov = out.coverage
        cov["states"] += st
        cov["transitions"] += tr
        cov["traces_validated_against_impl"] += len(recs)
        cov["evaluations"] += len(recs)
        hist = {}
        for v in verdicts:
            hist[v] = hist.get(v, 0) + 1
        cov["parts"]["verdict_histogram"] = hist
        cov["parts"]["sources"] = len(srcs)
        cov["distinct_nontrivial"] = sum(hist.get(v, 0) for v in okverdicts)
        cov["rule"] = rule
        for (name, svg, opt, o1, adoc), v in zip(meta, verdicts):
            if v in okverdicts and len(cov["samples"]) < 2 and len(svg) < 1500:
                cov["samples"].append({"source": name, "svg": svg, "opts": opt, "verdict": v})
        if cov["distinct_nontrivial"] < min(len(recs) // 5, 150):
            raise common.MachineryError("vacuous run: %r" % hist)
        for (name, svg, opt, o1, adoc), v, rec in zip(meta, verdicts, recs):
            if v.startswith("BAD"):
                out.violation(classify(v, svg, opt, o1, adoc, rec), "TLC rejected trace: " + v,
                              {"source": name, "svg": svg if len(svg) < 4000 else svg[:4000],
                               "opts": {"ndigits": opt[0], "allow_text": opt[1], "drop_unsupported": opt[2]},
                               "output": o1 if o1 is None or len(o1) < 4000 else o1[:4000], "verdict": v})
        return srcs, recs, verdicts
    finally:
        common.cleanup(wd)


def replay(path):
    w = json.load(open(path))["witness"]
    print(w["svg"])
    o = w["opts"]
    print(D.convert(w["svg"], ndigits=o["ndigits"], allow_text=bool(o["allow_text"]),
                    drop_unsupported=bool(o["drop_unsupported"])))
    return 0
