"""C01 — conversion output always conforms to the documented picosvg grammar."""
from . import structural


def classify(v, svg, opt, o1, adoc, rec):
    return "C01/" + v.split(":", 1)[1]


def run(out, tier):
    structural.run_structural(
        out, "C01", tier, ("ok:pico",),
        "documents drawn by TLC -simulate from Build.tla (foci mixed/grad/stroke/paint/clip/struct: "
        "supported and unsupported elements, strokes, gradients, clips, use, nested svg, text) plus "
        "every tests/*.svg source, x option vectors (ndigits 0..6 x allow_text x drop_unsupported; "
        "quick: 2 of a covering set of 8 per document, thorough: all 28); non-trivial = conversion "
        "returned normally and TLC evaluated every grammar clause on the real lexemes", classify)


replay = structural.replay
