#!/usr/bin/env python3
"""Re-run the confirmation of the seeded changes recorded under /verif/seeded against the CURRENT
/repo HEAD and the CURRENT checks; updates meta.json (detected_by_quick_check, outputs) and writes
seeded/SUMMARY.md.  usage: reconfirm_seeded.py [ids...]  (default: all)   [--also C13,...]"""
import glob
import json
import os
import subprocess
import sys

VERIF = "/verif"
args = [a for a in sys.argv[1:] if not a.startswith("--")]
extra = {}
for a in sys.argv[1:]:
    if a.startswith("--also="):        # id:checks  e.g. --also=C03_A:C13
        k, v = a[7:].split(":")
        extra[k] = v.split(",")


def sh(cmd, cwd=None, env=None, timeout=3600):
    p = subprocess.run(cmd, shell=True, cwd=cwd, env=env, stdout=subprocess.PIPE, stderr=subprocess.STDOUT,
                       text=True, timeout=timeout)
    return p.returncode, p.stdout


for d in sorted(glob.glob(os.path.join(VERIF, "seeded", "C*_*"))):
    name = os.path.basename(d)
    if args and name not in args:
        continue
    meta = json.load(open(os.path.join(d, "meta.json")))
    pid = meta["breaks_property"]
    wt = "/tmp/cm/%s" % name
    sh("git -C /repo worktree remove --force %s; rm -rf %s" % (wt, wt))
    os.makedirs("/tmp/cm", exist_ok=True)
    sh("git -C /repo worktree add -q --detach %s HEAD" % wt)
    try:
        sh("mkdir -p MUTANT && cp %s/*.py MUTANT/" % d, cwd=wt)
        env = dict(os.environ, PYTHONPATH=wt + "/src", PYTHONHASHSEED="0")
        env.pop("PICOSVG_VERIF", None)
        rc0, _ = sh("/venv/bin/python MUTANT/%s" % meta["demo"], cwd=wt, env=env, timeout=900)
        rc, o = sh("git apply %s/patch.diff" % d, cwd=wt)
        if rc != 0:
            # the tree moved on (hooks, fixes): try with fuzz and refresh patch.diff if that works
            rc, o = sh("patch -p1 -s --fuzz=3 --no-backup-if-mismatch < %s/patch.diff" % d, cwd=wt)
            sh("find . -name '*.rej' -delete; find . -name '*.orig' -delete", cwd=wt)
            if rc == 0:
                _, newdiff = sh("git diff -- src", cwd=wt)
                open(os.path.join(d, "patch.diff"), "w").write(newdiff)
        if rc != 0:
            meta["ran"]["note"] = "patch.diff no longer applies to HEAD"
            print(name, "patch does not apply", flush=True)
            continue
        _, ot = sh("/venv/bin/python -m pytest -q -p no:cacheprovider 2>&1 | tail -1", cwd=wt, env=env)
        rc1, _ = sh("/venv/bin/python MUTANT/%s" % meta["demo"], cwd=wt, env=env, timeout=900)
        envc = dict(os.environ, PICOSVG_REPO=wt)
        rcc, oc = sh("./check %s --tier quick" % pid, cwd=VERIF, env=envc, timeout=3000)
        meta["ran"].update({"tests_with_patch": ot.strip(), "demo_clean_exit": rc0, "demo_with_patch_exit": rc1,
                            "our_check_exit": rcc,
                            "our_check_output": [l for l in oc.splitlines() if "VIOLATION" in l or "clause" in l][:4]
                            + oc.splitlines()[-1:]})
        meta["detected_by_quick_check"] = rcc == 1
        others = {}
        for other in extra.get(name, []):
            rco, oo = sh("./check %s --tier quick" % other, cwd=VERIF, env=envc, timeout=3000)
            others[other] = {"exit": rco, "last": oo.splitlines()[-1:]}
        if others:
            meta["also_detected_by"] = [k for k, v in others.items() if v["exit"] == 1]
            meta["ran"]["other_checks"] = others
        meta["still_valid"] = rc0 == 0 and rc1 != 0 and "5 failed, 356 passed" in ot
        json.dump(meta, open(os.path.join(d, "meta.json"), "w"), indent=1)
        print(name, "valid" if meta["still_valid"] else "INVALID", "detected" if rcc == 1 else "MISSED",
              meta.get("also_detected_by", ""), flush=True)
    finally:
        sh("git -C /repo worktree remove --force %s; rm -rf %s" % (wt, wt))

# summary
rows = []
for d in sorted(glob.glob(os.path.join(VERIF, "seeded", "C*_*"))):
    m = json.load(open(os.path.join(d, "meta.json")))
    NOTES = {"C08_F": "makes conversion refuse documents it used to convert (nothing wrong is returned): outside what the property states",
             "C10_H": "changes the treatment of NON-conforming strings only, which C10 leaves open",
             "C04_B": "missed until session 3; caught by the hairline family (micro mode of the concretiser)",
             "C06_J": "known miss: percentage fr of a userSpaceOnUse radial gradient on a non-square viewBox (GradSem gives no colours to focal gradients with fr != 0)",
             "C20_D": "neutralised: the code it patches (_affine_callback's radii scaling) was rewritten by fix 0d8fcd1"}
    if m.get("still_valid") is False:
        own, note = "n/a", NOTES.get(m["id"], "neutralised by a later fix: commit (its demonstration no longer fails)")
    else:
        own, note = ("yes" if m.get("detected_by_quick_check") else "no"), NOTES.get(m["id"], "")
    rows.append("| %s | %s | %s | %s | %s |" % (m["id"], m["breaks_property"], own,
                                              ", ".join(m.get("also_detected_by", [])) or "-", note))
open(os.path.join(VERIF, "seeded", "SUMMARY.md"), "w").write(
    "# Seeded changes (confirmed against the repaired tree)\n\n"
    "Each directory holds patch.diff, the demonstration, the agent's notes and meta.json (what was run).\n\n"
    "| id | breaks | caught by its own quick check | also caught by | note |\n|---|---|---|---|---|\n" + "\n".join(rows) + "\n\n"
    "Not kept (round 1): C07_B, C08_B, C09_B - their demonstrations pass with the patch on the repaired tree "
    "(a fix: commit cleans up what they break: the closing group/orphan-gradient passes, arcs_to_cubics "
    "making shorthand explicit); C15_B - the code it patches (the cached branch of apply_style_attributes) "
    "was removed by a fix.\n")
print("summary written")
