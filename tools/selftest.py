#!/venv/bin/python
"""Binding self-test (run by setup.sh): every trace spec must accept a faithful trace recorded from the
real code and REJECT the same trace with one recorded field corrupted.  Shows that the specs are
bound to what the implementation did and do not only constrain the shape of a trace."""
import copy
import os
import sys

HERE = os.path.dirname(os.path.dirname(os.path.abspath(__file__)))
os.environ.setdefault("PICOSVG_VERIF", "1")
sys.path.insert(0, os.path.join(os.environ.get("PICOSVG_REPO", "/repo"), "src"))
sys.path.insert(0, HERE)

from harness import common, c09, c10, c11, c15, doc as D, render  # noqa


def expect(name, verdicts, good_prefix, bad_prefix):
    ok = verdicts[0].startswith(good_prefix) and verdicts[1].startswith(bad_prefix)
    print("%-14s faithful -> %-28s corrupted -> %-40s %s" % (name, verdicts[0], verdicts[1], "ok" if ok else "FAILED"))
    return ok


def main():
    wd = common.workdir("selftest")
    allok = True
    try:
        # TraceParse: the parser's answer for "M1 2 3 4" with one argument altered
        r = c10.parse_trace("M1 2 3 4")
        bad = copy.deepcopy(r)
        bad["o"]["c"][0][1][2] = [0, 7, 0]
        v, _, _ = common.validate_traces("TraceParse", "TraceParse.cfg", [r, bad], wd)
        allok &= expect("TraceParse", v, "ok:equal", "BAD:misparse")
        # TracePath: absolute() result with one coordinate shifted
        r = c09.path_trace(c09.build("lcz", 0, "M"))
        bad = copy.deepcopy(r)
        bad["o"]["absolute"]["c"][1][1][0] += 1000
        v, _, _ = common.validate_traces("TracePath", "TracePath.cfg",
                                         [{k: x for k, x in t.items() if k != "d"} for t in (r, bad)], wd)
        allok &= expect("TracePath", v, "ok:all", "BAD:absolute")
        # TraceTransform: compose order swapped in the recorded result
        recs = c11.algebra_jobs(__import__("random").Random(1), 3)
        r = [x for x in recs if x["kind"] == "ltr" and len(x["ms"]) >= 2 and x["ms"][0] != x["ms"][1]][0]
        bad = copy.deepcopy(r)
        bad["r"][4] += 1
        v, _, _ = common.validate_traces("TraceTransform", "TraceTransform.cfg", [r, bad], wd)
        allok &= expect("TraceTransform", v, "ok:ltr", "BAD:compose_ltr")
        # TraceRender: a converted document whose output path is displaced by 3 units
        d = {"vb": [0, 0, 16, 16], "view": [0, 0, 16, 16], "root": [], "nodes": [
            {"d": 1, "tag": "g", "id": "", "at": [["transform", [["translate", 3, 1]], 0]], "g": [], "ref": ""},
            {"d": 2, "tag": "rect", "id": "", "at": [["fill", "red", 0]], "g": [1, 1, 6, 5, -1, -1], "ref": ""}]}
        rec, _ = render._one((d, {}))
        bad = copy.deepcopy(rec)
        lay = bad["out"]["layers"][0]
        lay["polys"] = [[x + (192 if i % 2 == 0 else 0) for i, x in enumerate(pl)] for pl in lay["polys"]]
        lay["bb"][0] += 192
        lay["bb"][2] += 192
        lay["pb"] = [[b[0] + 192, b[1], b[2] + 192, b[3]] for b in lay["pb"]]
        v, _, _ = common.validate_traces("TraceRender", "TraceRender.cfg", [rec, bad], wd, env={"DENSE": "0"})
        allok &= expect("TraceRender", v, "ok:render", "BAD:render")
        # TraceObject: a history whose direct chain hash differs from the re-parsed chain at the end
        r = c15.execute("shapes", [("absolute", "inplace"), ("simplify", "copy")])
        bad = copy.deepcopy(r)
        bad["steps"][-1]["d"] = "0" * 12
        v, _, _ = common.validate_traces("TraceObject", "TraceObject.cfg", [r, bad], wd)
        allok &= expect("TraceObject", v, "ok:history", "BAD:differs-from-reparsed")
        # TracePipeline: recorded steps of a real conversion; corrupted = relative commands still
        # observed after absolute(); second corruption = two steps swapped
        from harness import c07
        r = c07._steps(('<svg xmlns="http://www.w3.org/2000/svg" viewBox="0 0 16 16"><g style="fill:red">'
                        '<rect x="1" y="1" width="3" height="4" style="opacity:0.5"/>'
                        '<path d="M1,1 h3 v3z"/></g></svg>', 1))
        bad = copy.deepcopy(r)
        i = bad["ev"].index("absolute")
        bad["res"][i] = sorted(set(bad["res"][i]) | {"relative"})
        v, _, _ = common.validate_traces("TracePipeline", "TracePipeline.cfg", [r, bad], wd)
        allok &= expect("TracePipeline", v, "ok:refines", "drift:state-after:absolute")
        bad = copy.deepcopy(r)
        i = bad["ev"].index("absolute")
        bad["ev"][i], bad["ev"][i + 1] = bad["ev"][i + 1], bad["ev"][i]
        v, _, _ = common.validate_traces("TracePipeline", "TracePipeline.cfg", [r, bad], wd)
        allok &= expect("TracePipeline", v, "ok:refines", "drift:expected:absolute")
        # TraceReuse, fine regime (double-width products): the reported matrix with one entry off by 2e-5
        from harness import c20
        import random as _r
        j = [x for x in c20.jobs_for("quick", _r.Random(0)) if x[4] == "fine:trix100->rot30"][0]
        r = c20.job(j)
        bad = copy.deepcopy(r)
        bad["A"][0] += 2000
        v, _, _ = common.validate_traces("TraceReuse", "TraceReuse.cfg", [r, bad], wd)
        allok &= expect("TraceReuse", v, "ok:sound", "BAD:reported-transform-does-not-map")
        # TraceReuse EllipseAgree: the recorded radii of the true quarter-turn image of a non-circular arc
        # swapped back (= an ellipse that did not turn with the shape)
        j = [x for x in c20.jobs_for("quick", _r.Random(0)) if x[4] == "egg->rot90 true-image" and x[2] == 0.01][0]
        r = c20.job(j)
        bad = copy.deepcopy(r)
        bad["s2"]["radii"] = [[b, a] for a, b in bad["s2"]["radii"]]
        v, _, _ = common.validate_traces("TraceReuse", "TraceReuse.cfg", [r, bad], wd)
        allok &= expect("TraceReuse/EllipseAgree", v, "ok:sound", "BAD:reported-transform-does-not-turn")
        # TraceArc: one sample of the produced cubics moved off the ellipse
        from harness import c12, c13, structural
        r = c12.arc_job((5, (0, 0), (3, 4), (-4, 3), 0, 1, 1, 1, 0, 0, "exact"))
        bad = copy.deepcopy(r)
        bad["segs"][0]["pts"][8] += bad["RR"] // 10
        v, _, _ = common.validate_traces("TraceArc", "TraceArc.cfg", [r, bad], wd)
        allok &= expect("TraceArc", v, "ok:arc", "BAD:deviates-from-ellipse")
        # TraceBool: the real union of two squares with one vertex of the result pulled inwards
        r = c13.one(("union", "pathops", (0, 1), ("nonzero", "nonzero")))
        bad = copy.deepcopy(r)
        pl = bad["r"]["polys"][0]
        k = max(range(0, len(pl), 2), key=lambda i: pl[i] + pl[i + 1])
        pl[k] -= 256
        pl[k + 1] -= 256
        v, _, _ = common.validate_traces("TraceBool", "TraceBool.cfg", [r, bad], wd, env={"DENSE": "0"})
        allok &= expect("TraceBool", v, "ok:setop", "BAD:set-differs")
        # TraceDoc: a converted document whose path gets a stroke attribute in the recorded projection
        r, _ = structural.convert_record("C01", '<svg xmlns="http://www.w3.org/2000/svg" viewBox="0 0 16 16">'
                                         '<rect x="1" y="1" width="4" height="5" fill="red"/></svg>', (3, 0, 0))
        bad = copy.deepcopy(r)
        for nd in bad["r"]["out"]["nodes"]:
            if nd["tag"] == "path":
                nd["at"].append(["stroke", list("blue"), ""])
        v, _, _ = common.validate_traces("TraceDoc", "TraceDoc.cfg", [r, bad], wd)
        allok &= expect("TraceDoc", v, "ok:", "BAD:")
    finally:
        common.cleanup(wd)
    print("binding self-test", "passed" if allok else "FAILED")
    return 0 if allok else 1


if __name__ == "__main__":
    sys.exit(main())
