#!/usr/bin/env python3
"""Confirm the sub-agent mutants against the CURRENT /repo HEAD in scratch worktrees and record them
under /verif/seeded/<id>/.  For each: demo passes clean, patch applies, test-suite unchanged, demo fails
with the patch, and which of our quick checks detect it (run with PICOSVG_REPO=<worktree>)."""
import glob
import json
import os
import re
import shutil
import subprocess
import sys

VERIF = "/verif"
round2 = "--round2" in sys.argv
round3 = "--round3" in sys.argv
round4 = "--round4" in sys.argv
round5 = "--round5" in sys.argv
only = [a for a in sys.argv[1:] if not a.startswith("--")]
SUFFIX = {"A": "I", "B": "J"} if round5 else {"A": "G", "B": "H"} if round4 else {"A": "E", "B": "F"} if round3 else {"A": "C", "B": "D"} if round2 else {"A": "A", "B": "B"}


def sh(cmd, cwd=None, env=None, timeout=3600):
    p = subprocess.run(cmd, shell=True, cwd=cwd, env=env, stdout=subprocess.PIPE, stderr=subprocess.STDOUT,
                       text=True, timeout=timeout)
    return p.returncode, p.stdout


results = []
for mdir in sorted(glob.glob("/tmp/wt/C*/MUTANT")):
    pid = mdir.split("/")[3]
    for letter in "AB":
        name = "%s_%s" % (pid, SUFFIX[letter])
        if only and name not in only and pid not in only:
            continue
        patch = os.path.join(mdir, "patch_%s.diff" % letter)
        demo = os.path.join(mdir, "demo_%s.py" % letter)
        if not os.path.exists(patch):
            continue
        wt = "/tmp/cm/%s" % name
        sh("git -C /repo worktree remove --force %s; rm -rf %s" % (wt, wt))
        os.makedirs("/tmp/cm", exist_ok=True)
        rc, o = sh("git -C /repo worktree add -q --detach %s HEAD" % wt)
        meta = {"id": name, "property": pid, "applies": False}
        try:
            shutil.copytree(mdir, os.path.join(wt, "MUTANT"))
            env = dict(os.environ, PYTHONPATH=wt + "/src", PYTHONHASHSEED="0")
            env.pop("PICOSVG_VERIF", None)
            rc0, o0 = sh("/venv/bin/python MUTANT/demo_%s.py" % letter, cwd=wt, env=env, timeout=900)
            meta["demo_clean_exit"] = rc0
            rc, o = sh("git apply %s || patch -p1 -s --fuzz=3 --no-backup-if-mismatch < %s" % (patch, patch), cwd=wt)
            sh("find . -name '*.rej' -delete; find . -name '*.orig' -delete", cwd=wt)
            meta["applies"] = rc == 0
            if rc != 0:
                meta["note"] = "patch no longer applies to the repaired tree (the code it changes was rewritten by a fix)"
            else:
                rct, ot = sh("/venv/bin/python -m pytest -q -p no:cacheprovider 2>&1 | tail -1", cwd=wt, env=env)
                meta["tests"] = ot.strip()
                rc1, o1 = sh("/venv/bin/python MUTANT/demo_%s.py" % letter, cwd=wt, env=env, timeout=900)
                meta["demo_mutant_exit"] = rc1
                meta["demo_mutant_tail"] = o1[-400:]
                envc = dict(os.environ, PICOSVG_REPO=wt)
                rcc, oc = sh("./check %s --tier quick" % pid, cwd=VERIF, env=envc, timeout=3000)
                meta["check_exit"] = rcc
                meta["check_tail"] = [l for l in oc.splitlines() if "VIOLATION" in l or "clause" in l][:4] + oc.splitlines()[-1:]
                rcd, od = sh("git diff -- src", cwd=wt)
                meta["patch"] = od
        finally:
            out = os.path.join(VERIF, "seeded", name)
            valid = meta.get("applies") and meta.get("demo_clean_exit") == 0 and meta.get("demo_mutant_exit", 0) != 0 \
                and "5 failed, 356 passed" in meta.get("tests", "")
            meta["confirmed"] = bool(valid)
            if valid:
                os.makedirs(out, exist_ok=True)
                open(os.path.join(out, "patch.diff"), "w").write(meta.pop("patch"))
                for f in glob.glob(os.path.join(mdir, "*.py")):
                    shutil.copy(f, out)
                notes = os.path.join(mdir, "notes.md")
                if os.path.exists(notes):
                    shutil.copy(notes, os.path.join(out, "agent_notes.md"))
                json.dump({"id": name, "breaks_property": pid, "demo": "demo_%s.py" % letter,
                           "needs": "see agent_notes.md (section for mutant %s)" % letter, "round": 5 if round5 else 4 if round4 else 3 if round3 else 2 if round2 else 1,
                           "ran": {"tests_with_patch": meta["tests"], "demo_clean_exit": meta["demo_clean_exit"],
                                   "demo_with_patch_exit": meta["demo_mutant_exit"],
                                   "our_check": "./check %s --tier quick (PICOSVG_REPO=<scratch worktree with the patch>)" % pid,
                                   "our_check_exit": meta["check_exit"], "our_check_output": meta["check_tail"]},
                           "detected_by_quick_check": meta["check_exit"] == 1},
                          open(os.path.join(out, "meta.json"), "w"), indent=1)
            meta.pop("patch", None)
            results.append(meta)
            print(json.dumps({k: meta.get(k) for k in ("id", "applies", "demo_clean_exit", "tests", "demo_mutant_exit",
                                                        "check_exit", "confirmed")}), flush=True)
            sh("git -C /repo worktree remove --force %s; rm -rf %s" % (wt, wt))
json.dump(results, open("/tmp/cm/results%s.json" % ("5" if round5 else "4" if round4 else "3" if round3 else "2" if round2 else ""), "a"), indent=1)
