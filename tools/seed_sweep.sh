#!/bin/bash
# usage: tools/seed_sweep.sh "<seeds>" [props...]   - runs quick checks under several seeds, prints a summary
seeds=${1:-"1 2 3"}; shift
props=${@:-C01 C02 C03 C04 C05 C06 C07 C08 C09 C10 C11 C12 C13 C14 C15 C16 C17 C18 C19 C20}
[ -n "$VP_RUN_REPO" ] && export PICOSVG_REPO=$VP_RUN_REPO
for s in $seeds; do for p in $props; do
  out=$(VERIF_SEED=$s ./check $p --tier quick 2>&1); rc=$?
  echo "seed=$s $p rc=$rc $(echo "$out" | tail -1 | cut -c1-120)"
  if [ $rc -ne 0 ]; then echo "$out" | grep -E "VIOLATION|clause|MACHINERY" | head -6; cp -r replays/$p /tmp/sweep_replays_${p}_$s 2>/dev/null; fi
done; done
