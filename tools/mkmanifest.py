#!/usr/bin/env python3
"""Regenerates /verif/MANIFEST.json from the table below (single source of truth)."""
import json
import os
import subprocess

HERE = os.path.dirname(os.path.dirname(os.path.abspath(__file__)))

# pid -> (technique, level text, level note, design ref)
CLAIMED = {
    "C10": (
        "TLA+ reference grammar (PathGrammar.tla) run by TLC over recorded parser/printer traces",
        "Every recorded call of the real path-data parser and printer (exhaustive short strings over "
        "the reduced alphabet, token sequences over every lexical number form and separator, seeded "
        "mutations, float boundary table) is judged by TLC running an executable transcription of "
        "the SVG 1.1 path BNF on the same characters; a verdict is a clause name.",
        "Trusted: Python float()/repr() for the exact decimal value of a double; the transcription of "
        "the BNF; numbers with more than 9 digits are not judged (TLC 32-bit integers).",
        "DESIGN.md section 4 C10",
    ),
    "C09": (
        "TLA+ path semantics (PathSem.tla Denote) evaluated by TLC on recorded rewrite results",
        "Every command sequence up to the tier's length bound over the 20 path commands x 3 argument "
        "schemes x M|m (plus seeded longer ones) is pushed through every rewrite of the real SVGPath "
        "class; TLC computes the SVG 1.1 denotation (subpaths, start, closedness, absolute segments, "
        "same-family reflection) of input and output and the promised target form; basic shapes are "
        "compared with the SVG 1.1 chapter 9 outlines; rounding with the half-unit bound.",
        "Trusted: driver scaling of numbers to integers; arc-to-cubic control points are judged by "
        "C12 (here only structure and exact end points).",
        "DESIGN.md section 4 C09",
    ),
}

PENDING_REASON = "check not built yet in this session (work in progress; see DESIGN.md section 8)"


def main():
    props = [json.loads(l) for l in open(os.path.join(HERE, "properties.jsonl"))]
    hooks_commits = []
    try:
        out = subprocess.run(["git", "-C", "/repo", "log", "--format=%H %s"], text=True,
                             stdout=subprocess.PIPE).stdout
        for ln in out.splitlines():
            h, _, s = ln.partition(" ")
            if s.startswith("verif-hooks:"):
                hooks_commits.append(h)
    except Exception:
        pass
    m = {
        "version": 1,
        "setup_cmd": "./setup.sh",
        "hooks": {
            "guard": "PICOSVG_VERIF",
            "enable": "PICOSVG_VERIF=1 PYTHONPATH=/repo/src (set by ./check; picosvg is pure Python, "
                      "nothing to rebuild)",
            "baseline_off_cmd": "cd /repo && env -u PICOSVG_VERIF /venv/bin/python -m pytest -ra -q "
                                "-p no:cacheprovider --timeout=900 --continue-on-collection-errors",
            "source_commits": hooks_commits,
            "add_only": True,
        },
        "engines": [
            {"name": "tlc", "path": "/opt/veriftools/tla/tla2tools.jar",
             "serves_properties": sorted(CLAIMED),
             "kind_free_text": "TLC 1.8 explicit-state model checker: generates behaviours of the "
                               "L2 models and validates recorded implementation traces against "
                               "the L1/L3 TLA+ specifications in /verif/spec"},
        ],
        "checks": [],
        "not_applicable": [],
        "notes": "All verdicts come from TLC evaluating /verif/spec/*.tla on traces recorded from "
                 "/repo's working tree (./check imports picosvg from /repo/src).  Exit 2 = machinery "
                 "failure.  Known findings: /verif/known_findings.json.",
    }
    for p in props:
        pid = p["id"]
        if pid in CLAIMED:
            tech, text, note, ref = CLAIMED[pid]
            m["checks"].append({
                "property_id": pid,
                "quick_cmd": "./check %s --tier quick" % pid,
                "thorough_cmd": "./check %s --tier thorough" % pid,
                "evidence_file": "evidence/%s.json" % pid,
                "replay_cmd_template": "./check %s --replay {path}" % pid,
                "engine": "tlc",
                "level_claimed": {"category": "model_checking", "text": text, "design_ref": ref},
                "level_note": note,
                "technique": tech,
            })
        else:
            m["not_applicable"].append({"property_id": pid, "reason": PENDING_REASON})
    with open(os.path.join(HERE, "MANIFEST.json"), "w") as f:
        json.dump(m, f, indent=1)
    print("MANIFEST: %d claimed, %d not_applicable" % (len(m["checks"]), len(m["not_applicable"])))


if __name__ == "__main__":
    main()
