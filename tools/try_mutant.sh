#!/bin/bash
# usage: tools/try_mutant.sh <patch.diff> <property-id> [tier]   (applies to /repo, runs the check, always reverts)
set -u
patch=$1; pid=$2; tier=${3:-quick}
cd /repo || exit 2
if ! git diff --quiet; then echo "/repo dirty"; exit 2; fi
git apply "$patch" 2>/dev/null || patch -p1 -s --fuzz=3 --no-backup-if-mismatch < "$patch" || { echo "patch does not apply"; git checkout -- .; find . -name "*.rej" -delete; find . -name "*.orig" -delete; exit 2; }
find . -name "*.orig" -delete; find . -name "*.rej" -delete
trap 'git -C /repo checkout -- . ' EXIT
cd /verif && ./check "$pid" --tier "$tier" 2>&1 | grep -v "^  clause" | tail -${TAIL:-6}
echo "exit=${PIPESTATUS[0]}"
