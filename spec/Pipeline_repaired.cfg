SPECIFICATION Spec
CONSTANTS
  Repaired = TRUE
  Drop = TRUE
INVARIANT CheckedIsPico
CHECK_DEADLOCK FALSE
VIEW View
