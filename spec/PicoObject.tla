----------------------------- MODULE PicoObject -----------------------------
(***************************************************************************)
(* L2 model of the SVG object's cache protocol (picosvg/svg.py).           *)
(*                                                                          *)
(* An object holds a tree (authoritative after a flush) and a lazily       *)
(* populated shape cache holding edits not yet written back.  Abstractly:   *)
(*    tree : set of edits already in the tree                               *)
(*    pend : set of edits only in the cache                                  *)
(*    pop  : cache populated?                                                *)
(* Operations are classified by the code's own bookkeeping:                  *)
(*   Editors   edit the cache, never flush                                   *)
(*   Mutators  flush (_update_etree), rewrite the tree, drop the cache       *)
(*   Queries   shapes/bounding_box populate the cache; tostring/toetree flush *)
(* and each exists in-place (returns the receiver) and copying                *)
(* (copy = Clone ; op in place on the clone; receiver's content unchanged).   *)
(*                                                                           *)
(* CloneFlushes = FALSE is the behaviour of the pinned tree (a clone copied   *)
(* only the tree): TLC then finds the history Editor(inplace) ; X(copy) that   *)
(* loses the edit.  TRUE is the repaired protocol.                             *)
(***************************************************************************)
EXTENDS Naturals, Sequences, FiniteSets, TLC, Json

CONSTANTS CloneFlushes, MaxLen, EmitHistories

Editors  == {"absolute", "shapes_to_paths", "expand_shorthand", "evenodd_to_nonzero_winding",
             "round_floats", "remove_empty_subpaths", "normalize_opacity"}
Mutators == {"apply_style_attributes", "resolve_use", "simplify", "clip_to_viewbox",
             "remove_unpainted_shapes", "remove_nonsvg_content", "remove_processing_instructions",
             "remove_anonymous_symbols", "remove_title_meta_desc", "set_attributes",
             "remove_attributes", "resolve_nested_svgs", "topicosvg",
             "set_viewbox", "remove_viewbox",    \* set_/remove_attributes aimed at the root's viewBox
             "set_root_paint"}                   \* set_attributes giving the root an inheritable paint
PopQueries   == {"shapes", "bounding_box"}
FlushQueries == {"tostring", "toetree", "checkpicosvg"}
PureQueries  == {"view_box", "tolerance", "xpath"}
Queries == PopQueries \cup FlushQueries \cup PureQueries
Ops == Editors \cup Mutators \cup Queries
Modes(op) == IF op \in Queries THEN {"query"} ELSE {"inplace", "copy"}

VARIABLES objs,     \* Seq([tree, pend, pop, ideal])   ideal: what a re-parsed object would hold
          cur,      \* index of the object the history continues on
          hist      \* Seq(<<op, mode>>)
vars == <<objs, cur, hist>>

Flushed(o) == [o EXCEPT !.tree = o.tree \cup o.pend, !.pend = {}, !.pop = FALSE]

InPlace(o, op) ==
  CASE op \in Editors      -> [o EXCEPT !.pend = @ \cup {op}, !.pop = TRUE, !.ideal = @ \cup {op}]
    [] op \in Mutators     -> [Flushed(o) EXCEPT !.tree = @ \cup {op}, !.ideal = o.ideal \cup {op}]
    [] op \in PopQueries   -> [o EXCEPT !.pop = TRUE]
    [] op \in FlushQueries -> Flushed(o)
    [] OTHER               -> o

Clone(o) == IF CloneFlushes THEN Flushed(o) ELSE [tree |-> o.tree, pend |-> {}, pop |-> FALSE, ideal |-> o.ideal]

Init == /\ objs = << [tree |-> {}, pend |-> {}, pop |-> FALSE, ideal |-> {}] >>
        /\ cur = 1 /\ hist = <<>>

Do(op, mode) ==
  /\ Len(hist) < MaxLen
  /\ mode \in Modes(op)
  /\ hist' = Append(hist, <<op, mode>>)
  /\ IF mode = "copy"
     THEN /\ objs' = Append(IF CloneFlushes THEN [objs EXCEPT ![cur] = Flushed(@)] ELSE objs,
                            InPlace(Clone(objs[cur]), op))
          /\ cur' = Len(objs) + 1
     ELSE /\ objs' = [objs EXCEPT ![cur] = InPlace(@, op)]
          /\ cur' = cur

Next == \E op \in Ops : \E mode \in Modes(op) : Do(op, mode)
Spec == Init /\ [][Next]_vars

(* what the object would serialise to *)
Content(o) == o.tree \cup o.pend

(* C15, design level: every object equals what a freshly re-parsed lineage would hold *)
SerEqualsIdeal == \A i \in 1..Len(objs) : Content(objs[i]) = objs[i].ideal
(* a pending edit implies a populated cache *)
PendImpliesPop == \A i \in 1..Len(objs) : objs[i].pend # {} => objs[i].pop

(* emission of the explored histories for replay into the real class *)
Emitted == EmitHistories /\ Len(hist) >= 1 => PrintT("CASE " \o ToJson(hist))
=============================================================================
