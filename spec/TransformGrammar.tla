-------------------------- MODULE TransformGrammar --------------------------
(***************************************************************************)
(* L1: the SVG 1.1 transform-list grammar (section 7.6.1) as a recogniser  *)
(* over character sequences, and the meaning of a transform list as an     *)
(* exact rational matrix (Affine.tla).                                      *)
(*   ParseTf(s) == [ok |-> FALSE] | [ok |-> TRUE, ops |-> Seq(<<name, vals>>)] *)
(* numbers are exact decimals <<neg, mant, exp>> (PathGrammar!Number).       *)
(* Sem(ops) is defined for translate/scale/matrix with any decimal and for   *)
(* rotate/skewX/skewY with angles that have rational sine/cosine/tangent     *)
(* (multiples of 90 degrees, +-45 for skews): ExactOps.                      *)
(***************************************************************************)
EXTENDS PathGrammar, Affine

Letter(c) == c \in {"m","a","t","r","i","x","n","s","l","e","c","o","k","w","X","Y"}

RECURSIVE SkipLetters(_, _)
SkipLetters(s, i) == IF Letter(At(s, i)) THEN SkipLetters(s, i + 1) ELSE i

Names == { <<"m","a","t","r","i","x">>, <<"t","r","a","n","s","l","a","t","e">>, <<"s","c","a","l","e">>,
           <<"r","o","t","a","t","e">>, <<"s","k","e","w","X">>, <<"s","k","e","w","Y">> }
NameOf(w) == CASE w = <<"m","a","t","r","i","x">> -> "matrix"
               [] w = <<"t","r","a","n","s","l","a","t","e">> -> "translate"
               [] w = <<"s","c","a","l","e">> -> "scale"
               [] w = <<"r","o","t","a","t","e">> -> "rotate"
               [] w = <<"s","k","e","w","X">> -> "skewX"
               [] w = <<"s","k","e","w","Y">> -> "skewY"
ArgCounts(n) == CASE n = "matrix" -> {6} [] n = "translate" -> {1, 2} [] n = "scale" -> {1, 2}
                  [] n = "rotate" -> {1, 3} [] OTHER -> {1}

(* comma-wsp between numbers inside the parentheses: mandatory separator unless the next *)
(* number starts with a sign or dot (the BNF says comma-wsp; browsers accept "1-2") - we  *)
(* follow the BNF strictly: a separator is required.                                       *)
RECURSIVE Args(_, _, _)
Args(s, i, acc) ==
  LET a == Number(s, i, TRUE)
  IN IF a.end = 0 THEN [end |-> 0, vals |-> acc]
     ELSE LET j == CommaWsp(s, a.end)
          IN IF At(s, SkipWsp(s, a.end)) = ")" THEN [end |-> SkipWsp(s, a.end), vals |-> Append(acc, a.val)]
             ELSE IF j = a.end THEN [end |-> 0, vals |-> acc]
             ELSE Args(s, j, Append(acc, a.val))

RECURSIVE Transforms(_, _, _)
Transforms(s, i, acc) ==
  LET j == SkipWsp(s, i)
  IN IF j > Len(s) THEN [ok |-> TRUE, ops |-> acc]
     ELSE LET e == SkipLetters(s, j)
              w == SubSeq(s, j, e - 1)
          IN IF w \notin Names THEN [ok |-> FALSE]
             ELSE LET p == SkipWsp(s, e)
                  IN IF At(s, p) # "(" THEN [ok |-> FALSE]
                     ELSE LET a == Args(s, SkipWsp(s, p + 1), <<>>)
                          IN IF a.end = 0 \/ Len(a.vals) \notin ArgCounts(NameOf(w)) THEN [ok |-> FALSE]
                             ELSE LET k == a.end + 1                  \* after ")"
                                      k2 == CommaWsp(s, k)
                                      more == SkipWsp(s, k) <= Len(s)
                                  IN \* between transforms: comma-wsp+ (at least one separator)
                                     IF more /\ k2 = k THEN [ok |-> FALSE]
                                     ELSE IF At(s, SkipWsp(s, k)) = "," /\ SkipWsp(s, k2) > Len(s) THEN [ok |-> FALSE]
                                     ELSE Transforms(s, k2, Append(acc, <<NameOf(w), a.vals>>))

ParseTf(s) == Transforms(s, 1, <<>>)

Pow10(n) == IF n <= 0 THEN 1 ELSE IF n = 1 THEN 10 ELSE IF n = 2 THEN 100 ELSE IF n = 3 THEN 1000
            ELSE IF n = 4 THEN 10000 ELSE 100000

(* decimal <<neg, mant, exp>> as a rational <<num, den>> *)
RatOf(v) == LET m == IF v[1] = 1 THEN 0 - v[2] ELSE v[2]
            IN IF v[3] >= 0 THEN <<m * Pow10(v[3]), 1>> ELSE <<m, Pow10(0 - v[3])>>

IntOf(v) == RatOf(v)[1]        \* only used when den = 1
IsInt(v) == v[3] >= 0
AngleOK(v) == IsInt(v) /\ IntOf(v) % 90 = 0
SkewOK(v) == IsInt(v) /\ IntOf(v) \in {-45, 0, 45}

Small(v) == v[3] >= -2 /\ v[3] <= 2 /\ v[2] * Pow10(v[3]) <= 100     \* |v| <= 100, <= 2 fraction digits
FracDigitsOf(op) == LET f(k) == IF op[2][k][3] < 0 THEN 0 - op[2][k][3] ELSE 0
                    IN IF Len(op[2]) = 0 THEN 0
                       ELSE CHOOSE m \in 0..9 : (\E k \in 1..Len(op[2]) : f(k) = m) /\ \A k \in 1..Len(op[2]) : f(k) <= m
ExactOp(op) == CASE op[1] = "rotate" -> AngleOK(op[2][1]) /\ (Len(op[2]) = 1 \/ (IsInt(op[2][2]) /\ IsInt(op[2][3])
                                                                                   /\ Small(op[2][2]) /\ Small(op[2][3])))
                 [] op[1] \in {"skewX", "skewY"} -> SkewOK(op[2][1])
                 [] OTHER -> \A k \in 1..Len(op[2]) : Small(op[2][k])
RECURSIVE SumFrac(_, _)
SumFrac(ops, i) == IF i > Len(ops) THEN 0 ELSE FracDigitsOf(ops[i]) + SumFrac(ops, i + 1)
(* the lists whose exact matrix stays inside TLC's 32-bit integers *)
ExactOps(ops) == Len(ops) <= 3 /\ (\A i \in 1..Len(ops) : ExactOp(ops[i])) /\ SumFrac(ops, 1) <= 3

(* common-denominator matrix from six rationals *)
Max2(a, b) == IF a > b THEN a ELSE b
(* all denominators are powers of ten, so the largest is a common denominator *)
Mat6(r) == LET d == Max2(Max2(Max2(r[1][2], r[2][2]), Max2(r[3][2], r[4][2])), Max2(r[5][2], r[6][2]))
           IN Reduce(<< r[1][1] * (d \div r[1][2]), r[2][1] * (d \div r[2][2]), r[3][1] * (d \div r[3][2]),
                        r[4][1] * (d \div r[4][2]), r[5][1] * (d \div r[5][2]), r[6][1] * (d \div r[6][2]), d >>)
One == <<1, 1>>
Zero == <<0, 1>>

OpSem(op) ==
  LET a == op[2]
  IN CASE op[1] = "matrix"    -> Mat6(<<RatOf(a[1]), RatOf(a[2]), RatOf(a[3]), RatOf(a[4]), RatOf(a[5]), RatOf(a[6])>>)
       [] op[1] = "translate" -> Mat6(<<One, Zero, Zero, One, RatOf(a[1]), IF Len(a) = 2 THEN RatOf(a[2]) ELSE Zero>>)
       [] op[1] = "scale"     -> Mat6(<<RatOf(a[1]), Zero, Zero, IF Len(a) = 2 THEN RatOf(a[2]) ELSE RatOf(a[1]), Zero, Zero>>)
       [] op[1] = "rotate"    -> Rot90k(((IntOf(a[1]) % 360) + 360) % 360,
                                        IF Len(a) = 3 THEN IntOf(a[2]) ELSE 0, IF Len(a) = 3 THEN IntOf(a[3]) ELSE 0)
       [] op[1] = "skewX"     -> <<1, 0, IntOf(a[1]) \div 45, 1, 0, 0, 1>>
       [] op[1] = "skewY"     -> <<1, IntOf(a[1]) \div 45, 0, 1, 0, 0, 1>>

RECURSIVE Sem(_, _)
Sem(ops, i) == IF i > Len(ops) THEN Id ELSE Mul(OpSem(ops[i]), Sem(ops, i + 1))
=============================================================================
