----------------------------- MODULE TracePath -----------------------------
(***************************************************************************)
(* L3 trace spec for C09.  A trace is one input command sequence together  *)
(* with what each rewrite of the real SVGPath class returned for it        *)
(* (kind = "path"), or one basic shape with the path the real class made   *)
(* of it (kind = "shape"), or one rounding call (kind = "round").          *)
(* All numbers are integers (driver scale: sc).                             *)
(***************************************************************************)
EXTENDS PathSem, Json, IOUtils, TLC

Cases == ndJsonDeserialize(IOEnv.TRACES)

VARIABLES blk, tid, verdict

Ok(o) == o.k = "ok"

JudgeOp(op, din, cin, o, c) ==
  IF o.k = "exc" THEN "exc"
  ELSE LET dout == Curve(o.c)
       IN CASE op = "absolute" ->
                 IF dout # din THEN "curve" ELSE IF ~IsAbsolute(o.c) THEN "form" ELSE "ok"
            [] op = "relative" ->
                 IF dout # din THEN "curve" ELSE IF ~IsRelative(o.c) THEN "form" ELSE "ok"
            [] op = "absolute_moveto" ->
                 IF dout # din THEN "curve" ELSE IF ~AbsoluteMoveto(o.c) THEN "form" ELSE "ok"
            [] op = "explicit_lines" ->
                 IF dout # din THEN "curve" ELSE IF ~NoHV(o.c) THEN "form" ELSE "ok"
            [] op = "expand_shorthand" ->
                 IF dout # din THEN "curve" ELSE IF ~NoShorthand(o.c) THEN "form" ELSE "ok"
            [] op = "arcs_to_cubics" ->
                 IF ~SameUpToArcs(din, dout) THEN "curve" ELSE IF ~NoArc(o.c) THEN "form" ELSE "ok"
            [] op = "as_cmd_seq" ->
                 IF ~SameUpToArcs(din, dout) THEN "curve" ELSE IF ~NormalForm(o.c) THEN "form" ELSE "ok"
            [] op = "subpaths_joined" ->
                 IF dout # din THEN "curve" ELSE "ok"
            [] op = "move" ->
                 IF dout # Shift(din, c.dx, c.dy) THEN "curve" ELSE "ok"
            [] OTHER -> "ok"

(* each piece returned by subpaths() must, on its own, describe exactly the  *)
(* corresponding subpath of the input                                        *)
RECURSIVE CatCurves(_, _, _)
CatCurves(ps, i, acc) == IF i > Len(ps) THEN acc ELSE CatCurves(ps, i + 1, acc \o Curve(ps[i]))

JudgePieces(din, o) ==
  IF o.k = "exc" THEN "exc"
  ELSE IF \E i \in 1..Len(o.p) : Len(Curve(o.p[i])) > 1 THEN "count"
  ELSE IF CatCurves(o.p, 1, <<>>) = din THEN "ok" ELSE "curve"

Ops == <<"absolute", "relative", "absolute_moveto", "explicit_lines", "expand_shorthand",
         "arcs_to_cubics", "as_cmd_seq", "subpaths_joined", "move">>

RECURSIVE FirstBad(_, _, _, _)
FirstBad(c, din, i, nexc) ==
  IF i > Len(Ops)
  THEN LET v == JudgePieces(din, c.o.subpaths)
       IN IF v \in {"ok", "exc"} THEN (IF nexc > 0 \/ v = "exc" THEN "ok:some-exception" ELSE "ok:all")
          ELSE "BAD:subpaths:" \o v
  ELSE LET v == JudgeOp(Ops[i], din, c.c, c.o[Ops[i]], c)
       IN IF v = "ok" THEN FirstBad(c, din, i + 1, nexc)
          ELSE IF v = "exc" THEN FirstBad(c, din, i + 1, nexc + 1)
          ELSE "BAD:" \o Ops[i] \o ":" \o v

JudgePath(c) == FirstBad(c, Curve(c.c), 1, 0)

(* rounding: same letters and arity; every argument moves by at most half a   *)
(* unit in the n-th decimal and lands on a multiple of that unit.             *)
(* c.sc = 10^D with D the scale; c.u = 10^(D-n)                               *)
JudgeRound(c) ==
  IF c.o.k = "exc" THEN "ok:some-exception"
  ELSE IF Len(c.o.c) # Len(c.c) THEN "BAD:round:structure"
  ELSE IF \E i \in 1..Len(c.c) : c.o.c[i][1] # c.c[i][1] \/ Len(c.o.c[i][2]) # Len(c.c[i][2])
       THEN "BAD:round:structure"
  ELSE IF \E i \in 1..Len(c.c) : \E k \in 1..Len(c.c[i][2]) :
            LET a == c.c[i][2][k]  b == c.o.c[i][2][k]
                d == IF a > b THEN a - b ELSE b - a
            IN 2 * d > c.u \/ b % c.u # 0
       THEN "BAD:round:bound"
  ELSE "ok:round"

(* ---- basic shapes (SVG 1.1 chapter 9); numbers scaled by 2 ---- *)
RectOutline(x, y, w, h, rx, ry) ==
  LET arc(ex, ey) == IF rx > 0 /\ ry > 0 THEN << <<"A", rx, ry, 0, 0, 1, ex, ey>> >> ELSE <<>>
  IN << [s |-> <<x + rx, y>>, closed |-> TRUE,
         segs |-> << <<"L", x + w - rx, y>> >> \o arc(x + w, y + ry)
               \o << <<"L", x + w, y + h - ry>> >> \o arc(x + w - rx, y + h)
               \o << <<"L", x + rx, y + h>> >> \o arc(x, y + h - ry)
               \o << <<"L", x, y + ry>> >> \o arc(x + rx, y)] >>

Min(a, b) == IF a < b THEN a ELSE b

(* index 0..3 of an axis extreme point of the ellipse, -1 otherwise *)
AxisIdx(p, cx, cy, rx, ry) ==
  CASE p = <<cx + rx, cy>> -> 0 [] p = <<cx, cy + ry>> -> 1
    [] p = <<cx - rx, cy>> -> 2 [] p = <<cx, cy - ry>> -> 3 [] OTHER -> -1

RECURSIVE EllipseTurns(_, _, _, _, _, _, _, _)
(* sum of arc extents in quarter turns (positive), -1 if not judgeable/wrong *)
EllipseTurns(segs, i, cur, cx, cy, rx, ry, acc) ==
  IF i > Len(segs) THEN acc
  ELSE LET sg == segs[i]
           e  == SegEnd(sg)
           a  == AxisIdx(cur, cx, cy, rx, ry)
           b  == AxisIdx(e, cx, cy, rx, ry)
           fwd == IF sg[6] = 1 THEN (b - a + 4) % 4 ELSE (a - b + 4) % 4
           ext == IF fwd = 0 THEN (IF sg[5] = 1 THEN 4 ELSE 0) ELSE fwd
           largeOK == (ext > 2 => sg[5] = 1) /\ (ext < 2 => sg[5] = 0)
       IN IF sg[1] # "A" \/ sg[2] # rx \/ sg[3] # ry \/ sg[4] # 0 \/ a < 0 \/ b < 0 \/ ~largeOK
          THEN -1
          ELSE EllipseTurns(segs, i + 1, e, cx, cy, rx, ry, acc + ext)

JudgeEllipse(d, cx, cy, rx, ry) ==
  IF Len(d) # 1 THEN "BAD:shape:subpaths"
  ELSE IF ~d[1].closed THEN "BAD:shape:open"
  ELSE IF AxisIdx(d[1].s, cx, cy, rx, ry) < 0 THEN "drift:shape-form-unjudged"
  ELSE LET sweeps == {d[1].segs[i][6] : i \in 1..Len(d[1].segs)}
           t == EllipseTurns(d[1].segs, 1, d[1].s, cx, cy, rx, ry, 0)
       IN IF t = 4 /\ sweeps \in {{0}, {1}} /\ SegEnd(d[1].segs[Len(d[1].segs)]) = d[1].s
          THEN "ok:shape" ELSE "BAD:shape:ellipse"

RECURSIVE PolySegs(_, _, _)
PolySegs(pts, i, acc) == IF i + 1 > Len(pts) THEN acc
                         ELSE PolySegs(pts, i + 2, Append(acc, <<"L", pts[i], pts[i + 1]>>))

JudgeShape(c) ==
  IF c.o.k = "exc" THEN "ok:some-exception"
  ELSE LET d == Curve(c.o.c)  p == c.p
       IN CASE c.tag = "rect" ->
                 IF p.w <= 0 \/ p.h <= 0 THEN "ok:degenerate-unjudged"
                 ELSE LET rx0 == IF p.rx < 0 THEN (IF p.ry < 0 THEN 0 ELSE p.ry) ELSE p.rx
                          ry0 == IF p.ry < 0 THEN rx0 ELSE p.ry
                          \* w, h are scaled by 2, so w/2 in scaled units is w \div 2 * ... keep exact:
                          rx == Min(rx0, p.w \div 2)
                          ry == Min(ry0, p.h \div 2)
                      IN IF d = RectOutline(p.x, p.y, p.w, p.h, rx, ry) THEN "ok:shape"
                         ELSE "BAD:shape:rect"
            [] c.tag = "circle" ->
                 IF p.r <= 0 THEN "ok:degenerate-unjudged" ELSE JudgeEllipse(d, p.cx, p.cy, p.r, p.r)
            [] c.tag = "ellipse" ->
                 IF p.rx <= 0 \/ p.ry <= 0 THEN "ok:degenerate-unjudged"
                 ELSE JudgeEllipse(d, p.cx, p.cy, p.rx, p.ry)
            [] c.tag = "line" ->
                 IF d = << [s |-> <<p.x1, p.y1>>, closed |-> FALSE,
                            segs |-> << <<"L", p.x2, p.y2>> >>] >> THEN "ok:shape"
                 ELSE "BAD:shape:line"
            [] c.tag \in {"polyline", "polygon"} ->
                 IF Len(p.pts) < 2 \/ Len(p.pts) % 2 = 1 THEN "ok:degenerate-unjudged"
                 ELSE IF d = Sig(<< [s |-> <<p.pts[1], p.pts[2]>>, closed |-> (c.tag = "polygon"),
                                     segs |-> PolySegs(p.pts, 3, <<>>)] >>) THEN "ok:shape"
                 ELSE "BAD:shape:" \o c.tag

Judge(c) == CASE c.kind = "path" -> JudgePath(c)
              [] c.kind = "round" -> JudgeRound(c)
              [] c.kind = "shape" -> JudgeShape(c)

NCases == Len(Cases)
NBlk == 64
Init == blk \in 1..NBlk /\ tid = 0 /\ verdict = "block"
Fan == /\ verdict = "block"
       /\ \E t \in 1..NCases : t % NBlk = blk - 1 /\ tid' = t
       /\ verdict' = "pending" /\ UNCHANGED blk
Do == /\ verdict = "pending"
      /\ verdict' = Judge(Cases[tid])
      /\ PrintT("V " \o ToString(tid) \o " " \o verdict')
      /\ UNCHANGED <<tid, blk>>
Next == Fan \/ Do
Spec == Init /\ [][Next]_<<blk, tid, verdict>>
==========================================================================
