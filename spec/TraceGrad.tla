------------------------------ MODULE TraceGrad ------------------------------
(***************************************************************************)
(* L3 trace spec for C06: TraceRender's stack comparison with gradient     *)
(* paints, plus, for every gradient-filled layer, the gradient parameter:  *)
(* TLC computes t (GradSem!GradT) of the SOURCE from the abstract document  *)
(* and compares it with the parameter of the OUTPUT gradient that the       *)
(* projection evaluated on the sample lattice (layer.tg).                   *)
(***************************************************************************)
EXTENDS GradSem, Json, IOUtils

Cases == ndJsonDeserialize(IOEnv.TRACES)
VARIABLES blk, tid, verdict

Dense == IOEnv.DENSE = "1"
Samples(vb) == IF Dense
               THEN { <<4 * i + 1, 4 * j + 2>> : i \in (2 * (vb[1] - 2))..(2 * (vb[1] + vb[3] + 2) - 1),
                                                 j \in (2 * (vb[2] - 2))..(2 * (vb[2] + vb[4] + 2) - 1) }
               ELSE { <<8 * i + 2, 8 * j + 5>> : i \in (vb[1] - 2)..(vb[1] + vb[3] + 1),
                                                 j \in (vb[2] - 2)..(vb[2] + vb[4] + 1) }
(* position of sample p in the projection's grid (row-major in i, then j) *)
GridIdx(vb, p) == IF Dense
                  THEN ((p[1] - 1) \div 4 - 2 * (vb[1] - 2)) * (2 * (vb[4] + 4)) + ((p[2] - 2) \div 4 - 2 * (vb[2] - 2)) + 1
                  ELSE ((p[1] - 2) \div 8 - (vb[1] - 2)) * (vb[4] + 4) + ((p[2] - 5) \div 8 - (vb[2] - 2)) + 1

(* source layers with resolved gradient paints; a gradient without stops paints nothing *)
WithGrad(doc, ls) ==
  LET one(l) == IF l.gi = 0 THEN << [l EXCEPT !.kind = "plain"] >>
                ELSE LET gr == GradOf(doc, l.gi)
                     IN IF gr.stops = <<>> THEN <<>>
                        ELSE << [shape |-> l.shape, clips |-> l.clips, paint |-> GradPaint(gr), e |-> l.e,
                                 grp |-> l.grp, kind |-> "grad", ctx |-> l.ctx, gi |-> l.gi, gr |-> gr] >>
  IN LET RECURSIVE go(_, _)
         go(i, acc) == IF i > Len(ls) THEN acc ELSE go(i + 1, acc \o one(ls[i]))
     IN go(1, <<>>)

(* radial gradients (with or without a focal point): compare the representation-independent invariants *)
InvClose(a, b) == /\ \A i \in 1..4 : Abs(a[i] - b[i]) <= 3                         \* points: 3/64 unit
                  /\ \A i \in 5..7 : Abs(a[i] - b[i]) * 50 <= Abs(a[i]) + Abs(b[i]) + 100   \* conic: 2% + slack

TClose(kind, a, b) == IF kind = "linear" THEN Abs(a - b) <= 5 ELSE Abs(a - b) <= 5 + (Abs(a) \div 32)

Judge(c) ==
  IF c.out.k # "ok" THEN "ok:exception:" \o c.out.t
  ELSE LET src == WithGrad(c.doc, Layers(c.doc))
           out == c.out.layers
           S(p) == SrcStack(src, p)
           Robust(p) == LET cv == SrcCover(src, p) IN \A q \in NbrsR(p, BandR(c.doc.view)) : SrcCover(src, q) = cv
           smp == Samples(c.doc.vb)
           bad == { p \in smp : OutStack(out, p) # S(p) /\ Robust(p) }
           \* gradient parameter: pairwise over the covering layers (same length when the stacks agree)
           TBad(p) == LET cs == Covering(src, SrcIn, p)  co == Covering(out, OutIn, p)
                      IN Len(cs) = Len(co) /\ \E k \in 1..Len(cs) :
                           /\ cs[k].kind = "grad" /\ cs[k].gr.kind \in {"linear", "radial"} /\ cs[k].gr.num
                           /\ co[k].tg # <<>> /\ co[k].tg[GridIdx(c.doc.vb, p)] # -99999
                           /\ GradT(cs[k], p)[1]
                           /\ ~TClose(cs[k].gr.kind, GradT(cs[k], p)[2], co[k].tg[GridIdx(c.doc.vb, p)])
           badT == { p \in smp : OutStack(out, p) = S(p) /\ S(p) # <<>> /\ Robust(p) /\ TBad(p) }
           IBad(p) == LET cs == Covering(src, SrcIn, p)  co == Covering(out, OutIn, p)
                      IN Len(cs) = Len(co) /\ \E k \in 1..Len(cs) :
                           /\ cs[k].kind = "grad" /\ cs[k].gr.kind \in {"radial", "radialf"} /\ cs[k].gr.num
                           /\ co[k].gp # <<>> /\ RadialInv(cs[k])[1]
                           /\ ~InvClose(RadialInv(cs[k])[2], co[k].gp)
           badI == { p \in smp : OutStack(out, p) = S(p) /\ S(p) # <<>> /\ Robust(p) /\ IBad(p) }
           nG == Cardinality({ k \in 1..Len(src) : src[k].kind = "grad" })
       IN IF bad # {} THEN LET p == CHOOSE p \in bad : TRUE
                           IN "BAD:render@" \o ToString(p[1]) \o "," \o ToString(p[2])
          ELSE IF badT # {} THEN LET p == CHOOSE p \in badT : TRUE
                                 IN "BAD:gradient-parameter@" \o ToString(p[1]) \o "," \o ToString(p[2])
          ELSE IF badI # {} THEN LET p == CHOOSE p \in badI : TRUE
                                 IN "BAD:radial-gradient-geometry@" \o ToString(p[1]) \o "," \o ToString(p[2])
          ELSE IF nG > 0 THEN "ok:gradient" ELSE IF src = <<>> THEN "ok:empty" ELSE "ok:render"

NCases == Len(Cases)
NBlk == 64
Init == blk \in 1..NBlk /\ tid = 0 /\ verdict = "block"
Fan == /\ verdict = "block"
       /\ \E t \in 1..NCases : t % NBlk = blk - 1 /\ tid' = t
       /\ verdict' = "pending" /\ UNCHANGED blk
Do == /\ verdict = "pending"
      /\ verdict' = Judge(Cases[tid])
      /\ PrintT("V " \o ToString(tid) \o " " \o verdict')
      /\ UNCHANGED <<tid, blk>>
Next == Fan \/ Do
Spec == Init /\ [][Next]_<<blk, tid, verdict>>
=============================================================================
