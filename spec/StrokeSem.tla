------------------------------ MODULE StrokeSem ------------------------------
(***************************************************************************)
(* L1: the stroke of a shape as a THREE-VALUED region (SVG 1.1 11.4).      *)
(*   StrokeMem(shape, sp, q) \in {"in", "out", "band"}                      *)
(* q is a point of the shape's OWN coordinate system (the pre-image of the  *)
(* sample point under the CTM), so that the outline is judged before outer  *)
(* transforms apply, as SVG prescribes.                                      *)
(*   "in"   some segment's dashed-on interior is closer than w/2 - beta      *)
(*   "out"  every segment is farther than F * w/2 + beta (F bounds caps and  *)
(*          miter joins), or the nearest part of the path is well inside a    *)
(*          gap of the dash pattern                                           *)
(*   "band" otherwise (caps, joins, dash ends, the stroker's resolution)      *)
(* beta = 5/16 unit (Skia's 0.25-unit stroker resolution + the 1/16 grid on   *)
(* which distances are evaluated).  Distances are compared squared, on        *)
(* coordinates reduced to 1/16 unit.                                          *)
(***************************************************************************)
EXTENDS SvgSem

G16 == 16                  \* distance grid: 1/16 unit
Beta16 == 5                \* beta in 1/16 units

(* contours of a strokable shape: Seq([pts |-> flat point list, closed |-> BOOLEAN]) *)
StrokeContours(tag, g) ==
  CASE tag = "rect" -> << [pts |-> <<g[1], g[2], g[1] + g[3], g[2], g[1] + g[3], g[2] + g[4], g[1], g[2] + g[4]>>,
                           closed |-> TRUE] >>
    [] tag = "line" -> << [pts |-> <<g[1], g[2], g[3], g[4]>>, closed |-> FALSE] >>
    [] tag = "polygon" -> << [pts |-> g, closed |-> TRUE] >>
    [] tag = "polyline" -> << [pts |-> g, closed |-> FALSE] >>
    [] tag = "path" -> LET subs == Denote([k \in 1..Len(g) |-> <<g[k][1], Tail(g[k])>>])
                       IN [k \in 1..Len(subs) |-> [pts |-> SegPts(subs[k].segs, 1, subs[k].s),
                                                   closed |-> subs[k].closed]]
    [] OTHER -> <<>>

PtAt(pts, i) == <<pts[2 * i - 1], pts[2 * i]>>
NPts(pts) == Len(pts) \div 2
(* segments of a contour as index pairs (closing segment included for closed contours) *)
NSegs(c) == IF c.closed THEN NPts(c.pts) ELSE NPts(c.pts) - 1
SegA(c, i) == PtAt(c.pts, i)
SegB(c, i) == PtAt(c.pts, IF i = NPts(c.pts) THEN 1 ELSE i + 1)

(* integer length of an axis-aligned or Pythagorean (3-4-5, 5-12-13, 8-15-17) segment, 0 if irrational *)
ISqrt(n) == IF \E k \in 0..64 : k * k = n THEN CHOOSE k \in 0..64 : k * k = n ELSE 0
SegLen(a, b) == ISqrt((b[1] - a[1]) * (b[1] - a[1]) + (b[2] - a[2]) * (b[2] - a[2]))

RECURSIVE CumLen(_, _, _)
CumLen(c, i, acc) == IF i = 0 THEN acc ELSE CumLen(c, i - 1, acc + SegLen(SegA(c, i), SegB(c, i)))
AllIntLen(c) == \A i \in 1..NSegs(c) : SegLen(SegA(c, i), SegB(c, i)) > 0

(* dash pattern: odd-length arrays are repeated; period; on-interval test for a phase in 1/16 units *)
DashArr(d) == IF Len(d) % 2 = 1 THEN d \o d ELSE d
RECURSIVE SumD(_, _)
SumD(d, i) == IF i > Len(d) THEN 0 ELSE d[i] + SumD(d, i + 1)
(* position s16 (1/16 units along the contour), margin m16: is [s - m, s + m] inside one ON / one OFF interval? *)
RECURSIVE DashClass(_, _, _, _, _)
DashClass(arr, k, start16, ph16, m16) ==
  \* ph16: phase within the period; walk the intervals
  IF k > Len(arr) THEN "edge"
  ELSE LET e16 == start16 + 16 * arr[k]
       IN IF ph16 - m16 >= start16 /\ ph16 + m16 <= e16 THEN (IF k % 2 = 1 THEN "on" ELSE "off")
          ELSE IF ph16 < e16 THEN "edge"
          ELSE DashClass(arr, k + 1, e16, ph16, m16)

(* sp: [w (stroke width), cap, join, ml (miterlimit), dash (Seq of ints), doff] *)
Extent16(sp) ==      \* upper bound, in 1/16 units, of how far the stroke reaches from the path
  LET f4 == IF sp.join = "miter" /\ sp.ml > 1 THEN 4 * sp.ml ELSE IF sp.cap = "square" THEN 6 ELSE 4   \* factor * 4
  IN (sp.w * 8 * f4) \div 4 + 1

(* squared distance machinery on the 1/16 grid: q16 = <<x, y>> integers in 1/16 units *)
Q16(q) == << (q[1] * G16) \div q[3], (q[2] * G16) \div q[3] >>

(* classification of q16 against segment a-b (lattice units) with half width hw16:               *)
(* returns <<kind, s16>>: kind in {"near", "far", "mid"}; s16 = arclength position of the          *)
(* projection along the segment (1/16 units, only meaningful when the projection is interior)    *)
SegClass(q16, a, b, in16, out16) ==
  LET ax == 16 * a[1]  ay == 16 * a[2]  bx == 16 * b[1]  by == 16 * b[2]
      ex == bx - ax  ey == by - ay
      L2 == ex * ex + ey * ey                       \* (16 L)^2  <= (16*23)^2
      dx == q16[1] - ax  dy == q16[2] - ay
      dot == dx * ex + dy * ey
      \* clamp the projection; squared distance to the segment, times L2 when interior
      interior == dot > 0 /\ dot < L2
      cr == ex * dy - ey * dx
      d2a == dx * dx + dy * dy
      d2b == (q16[1] - bx) * (q16[1] - bx) + (q16[2] - by) * (q16[2] - by)
      \* interior: dist^2 = cr^2 / L2 ; compare cr^2 ? r^2 * L2 using division to stay in range
      distLT(r16) == IF L2 = 0 THEN d2a < r16 * r16
                     ELSE IF Abs(dx) > 30000 \/ Abs(dy) > 30000 THEN FALSE
                     ELSE IF interior THEN Abs(cr) < 400000 /\ (cr \div 16) * (cr \div 16) < r16 * r16 * (L2 \div 256)
                     ELSE (IF dot <= 0 THEN d2a ELSE d2b) < r16 * r16
  IN [near |-> interior /\ in16 > 0 /\ distLT(in16), far |-> ~distLT(out16), interior |-> interior,
      t256 |-> IF L2 = 0 THEN 0 ELSE ((dot \div 16) * 256) \div (L2 \div 16)]

(* is the join at vertex v (neighbours a, b) mitered under miterlimit ml?  SVG 11.4: the miter length   *)
(* ratio 1/sin(theta/2) must not exceed ml, theta the angle between the segments at v; exactly:          *)
(*   cos(theta) <= 1 - 2/ml^2   <=>   (u.w) ml^2 <= (ml^2 - 2) |u||w|      (u = a - v, w = b - v)         *)
Mitered(v, a, b, ml) ==
  LET ux == a[1] - v[1]  uy == a[2] - v[2]  wx == b[1] - v[1]  wy == b[2] - v[2]
      dt == ux * wx + uy * wy
      K  == ml * ml - 2
      n2 == (ux * ux + uy * uy) * (wx * wx + wy * wy)
  IN IF dt <= 0 THEN K >= 0 \/ (dt * ml * ml) * (dt * ml * ml) >= K * K * n2   \* blunt corner
     ELSE IF K <= 0 THEN FALSE
     ELSE IF dt > 2000 \/ n2 > 150000 THEN TRUE                                  \* out of range: assume the larger reach
     ELSE (dt * ml * ml) * (dt * ml * ml) <= K * K * n2

(* how far (1/16 units) the stroke can reach from vertex j of contour c *)
VertexReach16(c, j, sp) ==
  LET n == NPts(c.pts)
      hw == 8 * sp.w
      isCap == ~c.closed /\ (j = 1 \/ j = n)
      prev == PtAt(c.pts, IF j = 1 THEN n ELSE j - 1)
      next == PtAt(c.pts, IF j = n THEN 1 ELSE j + 1)
      \* with a dash pattern any point of the path can be a dash end: a square cap there reaches w/2 * sqrt 2
      dashCap == IF sp.dash # <<>> /\ sp.cap = "square" THEN (3 * hw) \div 2 + 1 ELSE hw
      joinR == IF sp.join = "miter" /\ Mitered(PtAt(c.pts, j), prev, next, sp.ml) THEN sp.ml * hw ELSE hw
  IN IF isCap THEN (IF sp.cap = "square" THEN (3 * hw) \div 2 + 1 ELSE hw)
     ELSE IF joinR > dashCap THEN joinR ELSE dashCap

StrokeMem(tag, g, sp, q, cs0) ==     \* cs0 = StrokeContours(tag, g), computed once per layer
  IF tag = "circle"
  THEN \* annulus about the centre: |r - w/2| .. r + w/2   (no dashes judged on circles)
       LET q16 == Q16(q)
           dx == q16[1] - 16 * g[1]  dy == q16[2] - 16 * g[2]
           d2 == dx * dx + dy * dy
           \* (zero-length dashes with square caps are squares about points: bounded by the cap reach only)
           arrC == DashArr(sp.dash)
           dotsC == sp.cap = "square" /\ \E k \in 1..Len(arrC) : k % 2 = 1 /\ arrC[k] = 0
           ext == IF dotsC THEN (8 * sp.w * 3) \div 2 + 1 ELSE 8 * sp.w
           lo == 16 * g[3] - ext   hi == 16 * g[3] + ext
       IN IF sp.dash # <<>> THEN (IF d2 > (hi + Beta16) * (hi + Beta16) \/ (lo > Beta16 /\ d2 < (lo - Beta16) * (lo - Beta16))
                                   THEN "out" ELSE "band")
          ELSE IF d2 < (hi - Beta16) * (hi - Beta16) /\ (lo + Beta16 <= 0 \/ d2 > (lo + Beta16) * (lo + Beta16)) THEN "in"
          ELSE IF d2 > (hi + Beta16) * (hi + Beta16) \/ (lo > Beta16 /\ d2 < (lo - Beta16) * (lo - Beta16)) THEN "out"
          ELSE "band"
  ELSE IF tag = "ellipse" \/ (tag = "rect" /\ (g[5] > 0 \/ g[6] > 0))
  THEN \* only "out" is decided: outside the outline grown by the reach, or inside it shrunk by the reach
       LET reach == (Extent16(sp) + Beta16 + 15) \div 16 + (IF tag = "rect" THEN (IF g[5] > g[6] THEN g[5] ELSE g[6]) ELSE 0)
           grown  == IF tag = "ellipse" THEN EllipseIn(q, g[1], g[2], g[3] + reach, g[4] + reach)
                     ELSE RectIn(q, <<g[1] - reach, g[2] - reach, g[3] + 2 * reach, g[4] + 2 * reach, -1, -1>>)
           shrunk == IF tag = "ellipse" THEN g[3] > reach /\ g[4] > reach /\ EllipseIn(q, g[1], g[2], g[3] - reach, g[4] - reach)
                     ELSE g[3] > 2 * reach /\ g[4] > 2 * reach
                          /\ RectIn(q, <<g[1] + reach, g[2] + reach, g[3] - 2 * reach, g[4] - 2 * reach, -1, -1>>)
       IN IF ~grown \/ shrunk THEN "out" ELSE "band"
  ELSE
  LET cs == cs0
      q16 == Q16(q)
      hw16 == 8 * sp.w
      in16 == hw16 - Beta16
      arr == DashArr(sp.dash)
      \* a dash of length zero with square caps is a square about a point: SVG aligns it with the path,
      \* the property only bounds it by the cap reach (w/2 * sqrt 2 < w/2 * 3/2) - so does the spec
      dots == sp.cap = "square" /\ \E k \in 1..Len(arr) : k % 2 = 1 /\ arr[k] = 0
      out16 == (IF dots THEN (hw16 * 3) \div 2 + 1 ELSE hw16) + Beta16   \* beyond this from every segment (vertices apart)
      period == SumD(arr, 1)
      dashed == arr # <<>> /\ period > 0
      capext16 == IF sp.cap = "butt" THEN 0 ELSE hw16
      \* per segment classification
      Cls(c, i) == SegClass(q16, SegA(c, i), SegB(c, i), in16, out16)
      \* dash class of the projection on segment i of contour c (only for integer-length contours)
      Phase(c, i) == LET cl == Cls(c, i)
                         L == SegLen(SegA(c, i), SegB(c, i))
                         s16 == 16 * CumLen(c, i - 1, 0) + (cl.t256 * L) \div 16
                         ph == (((s16 + 16 * sp.doff) % (16 * period)) + 16 * period) % (16 * period)
                     IN ph
      OnAt(c, i)  == ~dashed \/ (AllIntLen(c) /\ DashClass(arr, 1, 0, Phase(c, i), Beta16 + 1) = "on")
      OffAt(c, i) == dashed /\ AllIntLen(c) /\ DashClass(arr, 1, 0, Phase(c, i), capext16 + Beta16 + 1) = "off"
      segs == UNION { {<<c, i>> : i \in 1..NSegs(cs[c])} : c \in 1..Len(cs) }
      verts == UNION { {<<c, j>> : j \in 1..NPts(cs[c].pts)} : c \in 1..Len(cs) }
      \* classify q against every segment ONCE (a function is evaluated eagerly, operators are not memoised)
      CL == [ci \in segs |-> Cls(cs[ci[1]], ci[2])]
      near == {ci \in segs : CL[ci].near}
      reach == {ci \in segs : ~CL[ci].far}               \* segments closer than w/2 + beta
      \* vertices whose cap / join could reach q (a mitered join reaches up to miterlimit * w/2)
      vreach == {cj \in verts :
                   LET v == PtAt(cs[cj[1]].pts, cj[2])
                       r == VertexReach16(cs[cj[1]], cj[2], sp) + Beta16
                       dx == q16[1] - 16 * v[1]  dy == q16[2] - 16 * v[2]
                   IN Abs(dx) <= r /\ Abs(dy) <= r /\ dx * dx + dy * dy <= r * r}
  IN IF \E ci \in near : OnAt(cs[ci[1]], ci[2]) THEN "in"
     ELSE IF reach = {} /\ vreach = {} THEN "out"
     \* within w/2 + beta of exactly one segment, away from every vertex, and the projection of q onto
     \* that segment is well inside a gap of the dash pattern
     ELSE IF dashed /\ Cardinality(reach) = 1 /\ vreach = {}
             /\ (LET ci == CHOOSE ci \in reach : TRUE
                 IN CL[ci].interior /\ OffAt(cs[ci[1]], ci[2]))
          THEN "out"
     ELSE "band"

StrokeParams(ctx) == [w |-> ctx.sw, cap |-> ctx.cap, join |-> ctx.join, ml |-> ctx.ml,
                      dash |-> ctx.dash, doff |-> ctx.doff]
=============================================================================
