------------------------------ MODULE WideMul ------------------------------
(***************************************************************************)
(* TLAPS-checked correctness of the double-width product used by the fine   *)
(* regime of TraceReuse.tla (property C20): TLC has 32-bit integers, so a   *)
(* product x * a that needs up to 57 bits is assembled from base-B halves.  *)
(* With  x = x1*B + x0,  a = a1*B + a0,  M = x1*a0 + x0*a1 = m1*B + m0,      *)
(* low = m0*B + x0*a0 = q*(B*B) + r   (all of these are what \div and %      *)
(* return), the pair  <<x1*a1 + m1 + q, r>>  is exact:                       *)
(*        x * a  =  (x1*a1 + m1 + q) * (B*B) + r                             *)
(* and negation / addition of such pairs keep the represented value.         *)
(***************************************************************************)
EXTENDS Integers, TLAPS

(* m1, q stand for what \div returns; the remainders are then M - m1*B and low - q*B*B, which is what  *)
(* % returns (x = B * (x \div B) + x % B), so the statements are polynomial identities.                *)
THEOREM SplitProduct ==
  ASSUME NEW B \in Int, NEW x1 \in Int, NEW x0 \in Int, NEW a1 \in Int, NEW a0 \in Int,
         NEW m1 \in Int, NEW q \in Int
  PROVE  LET M == x1 * a0 + x0 * a1
             m0 == M - m1 * B
             low == m0 * B + x0 * a0
             r == low - q * (B * B)
         IN (x1 * B + x0) * (a1 * B + a0) = (x1 * a1 + m1 + q) * (B * B) + r
  BY Z3

(* value of a pair <<Q, R>> over the scale S is Q*S + R (numerator of Q + R/S) *)
THEOREM NegPair ==
  ASSUME NEW S \in Int, NEW Q \in Int, NEW R \in Int
  PROVE  /\ (0 - Q) * S + 0 = 0 - (Q * S + 0)
         /\ (0 - Q - 1) * S + (S - R) = 0 - (Q * S + R)
  BY Z3

THEOREM AddPair ==
  ASSUME NEW S \in Int, NEW Q1 \in Int, NEW R1 \in Int, NEW Q2 \in Int, NEW R2 \in Int, NEW c \in Int
  PROVE  (Q1 + Q2 + c) * S + (R1 + R2 - c * S) = (Q1 * S + R1) + (Q2 * S + R2)
  BY Z3
=============================================================================
