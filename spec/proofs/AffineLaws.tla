----------------------------- MODULE AffineLaws -----------------------------
(***************************************************************************)
(* TLAPS-checked algebraic laws behind property C11 (integer matrices      *)
(* <<a,b,c,d,e,f>> = SVG matrix(a b c d e f); the identities are           *)
(* polynomial, hence valid over the reals):                                 *)
(*   MapMul      mapping through a product = mapping through the factors,   *)
(*               second factor first (the meaning of nesting and of a       *)
(*               transform list, and of compose_ltr read right to left)      *)
(*   MulAssoc    the product is associative                                   *)
(*   InverseUndoes  m maps the pre-image (adjugate numerators over det) back *)
(*               to the point: inversion undoes every non-degenerate m      *)
(* The same polynomial formulas are the ones TraceTransform.tla checks the   *)
(* implementation against on the integer grid.                               *)
(***************************************************************************)
EXTENDS Integers, TLAPS

Mul(m, n) == << m[1] * n[1] + m[3] * n[2],
                m[2] * n[1] + m[4] * n[2],
                m[1] * n[3] + m[3] * n[4],
                m[2] * n[3] + m[4] * n[4],
                m[1] * n[5] + m[3] * n[6] + m[5],
                m[2] * n[5] + m[4] * n[6] + m[6] >>

Map(m, p) == << m[1] * p[1] + m[3] * p[2] + m[5], m[2] * p[1] + m[4] * p[2] + m[6] >>

Det(m) == m[1] * m[4] - m[2] * m[3]
(* numerators of the pre-image of p under m (the pre-image itself is PreNum / Det) *)
PreNum(m, p) == << m[4] * (p[1] - m[5]) - m[3] * (p[2] - m[6]),
                   m[1] * (p[2] - m[6]) - m[2] * (p[1] - m[5]) >>

THEOREM MapMul ==
  ASSUME NEW a1 \in Int, NEW b1 \in Int, NEW c1 \in Int, NEW d1 \in Int, NEW e1 \in Int, NEW f1 \in Int,
         NEW a2 \in Int, NEW b2 \in Int, NEW c2 \in Int, NEW d2 \in Int, NEW e2 \in Int, NEW f2 \in Int,
         NEW x \in Int, NEW y \in Int
  PROVE  Map(Mul(<<a1, b1, c1, d1, e1, f1>>, <<a2, b2, c2, d2, e2, f2>>), <<x, y>>)
         = Map(<<a1, b1, c1, d1, e1, f1>>, Map(<<a2, b2, c2, d2, e2, f2>>, <<x, y>>))
  BY Z3 DEF Map, Mul

THEOREM MulAssoc ==
  ASSUME NEW a1 \in Int, NEW b1 \in Int, NEW c1 \in Int, NEW d1 \in Int, NEW e1 \in Int, NEW f1 \in Int,
         NEW a2 \in Int, NEW b2 \in Int, NEW c2 \in Int, NEW d2 \in Int, NEW e2 \in Int, NEW f2 \in Int,
         NEW a3 \in Int, NEW b3 \in Int, NEW c3 \in Int, NEW d3 \in Int, NEW e3 \in Int, NEW f3 \in Int
  PROVE  Mul(Mul(<<a1, b1, c1, d1, e1, f1>>, <<a2, b2, c2, d2, e2, f2>>), <<a3, b3, c3, d3, e3, f3>>)
         = Mul(<<a1, b1, c1, d1, e1, f1>>, Mul(<<a2, b2, c2, d2, e2, f2>>, <<a3, b3, c3, d3, e3, f3>>))
  BY Z3 DEF Mul

(* inversion undoes the transform: mapping the pre-image (numerators over det) through m gives det * p *)
THEOREM InverseUndoes ==
  ASSUME NEW a \in Int, NEW b \in Int, NEW c \in Int, NEW d \in Int, NEW e \in Int, NEW f \in Int,
         NEW x \in Int, NEW y \in Int
  PROVE  LET m == <<a, b, c, d, e, f>>  q == PreNum(m, <<x, y>>)
         IN /\ a * q[1] + c * q[2] + e * Det(m) = Det(m) * x
            /\ b * q[1] + d * q[2] + f * Det(m) = Det(m) * y
  BY Z3 DEF PreNum, Det
=============================================================================
