------------------------------ MODULE TraceReuse ------------------------------
(***************************************************************************)
(* L1 + L3 for C20.  A trace is one call affine_between(s1, s2, tol):       *)
(*   s1, s2 |-> [m |-> first move <<x, y>>, segs |-> Seq(<<kind, v...>>)]    *)
(*       segments in relative form (every control/end point as a vector      *)
(*       from the segment's start), coordinates x 1000                        *)
(*   tol x 1000;  A |-> <<a,b,c,d,e,f>> x 10000 | <<>> (None)                 *)
(*   expect |-> "any" | "found" (s2 is an exact translate of s1) |           *)
(*              "identity" (s2 = s1)                                          *)
(* MapsOnto: same commands, and A applied to the first move (as a point) and *)
(* to every vector of s1 reproduces s2 within tol (per coordinate).           *)
(***************************************************************************)
EXTENDS Naturals, Integers, Sequences, Json, IOUtils, TLC

Cases == ndJsonDeserialize(IOEnv.TRACES)
VARIABLES blk, tid, verdict

Abs(x) == IF x < 0 THEN -x ELSE x
SA == 10000

(* A (x SA) applied to a vector v (x 1000) -> x 1000 * SA *)
LinX(A, v) == A[1] * v[1] + A[3] * v[2]
LinY(A, v) == A[2] * v[1] + A[4] * v[2]

CloseVec(A, v, w, tol) == /\ Abs(LinX(A, v) - w[1] * SA) <= (tol + 2) * SA
                          /\ Abs(LinY(A, v) - w[2] * SA) <= (tol + 2) * SA
ClosePt(A, p, q, tol) == /\ Abs(LinX(A, p) + A[5] * 1000 - q[1] * SA) <= (tol + 2) * SA
                         /\ Abs(LinY(A, p) + A[6] * 1000 - q[2] * SA) <= (tol + 2) * SA

Vecs(seg) == [k \in 1..((Len(seg) - 1) \div 2) |-> <<seg[2 * k], seg[2 * k + 1]>>]

MapsOnto(A, s1, s2, tol) ==
  /\ Len(s1.segs) = Len(s2.segs)
  /\ ClosePt(A, s1.m, s2.m, tol)
  /\ \A i \in 1..Len(s1.segs) :
       /\ s1.segs[i][1] = s2.segs[i][1]
       /\ Len(s1.segs[i]) = Len(s2.segs[i])
       /\ \A k \in 1..Len(Vecs(s1.segs[i])) : CloseVec(A, Vecs(s1.segs[i])[k], Vecs(s2.segs[i])[k], tol)

(* arc radii are not coordinates; under a map with unit determinant and orthogonal columns (rotation, *)
(* mirror, translation) a circular arc keeps its radius                                               *)
Isometry(A) == /\ Abs(A[1] * A[4] - A[2] * A[3]) >= SA * SA - SA * 20 /\ Abs(A[1] * A[4] - A[2] * A[3]) <= SA * SA + SA * 20
               /\ Abs(A[1] * A[3] + A[2] * A[4]) <= SA * 20
               /\ Abs(A[1] * A[1] + A[2] * A[2] - SA * SA) <= SA * 40
RadiiAgree(A, s1, s2, tol) ==
  ~Isometry(A) \/ (Len(s1.radii) = Len(s2.radii) /\
     \A k \in 1..Len(s1.radii) : s1.radii[k][1] # s1.radii[k][2]
                                  \/ (Abs(s1.radii[k][1] - s2.radii[k][1]) <= tol + 2
                                      /\ Abs(s1.radii[k][2] - s2.radii[k][2]) <= tol + 2))

(* a NON-circular arc (x-axis-rotation 0) under an isometry whose linear part is a quarter turn or an   *)
(* axis mirror: the image ellipse has the same radii, swapped exactly when the map swaps the axes.  The *)
(* target may spell it with rotation 0 or 90 (90 = radii read the other way round).                     *)
NearUnit(v) == Abs(v) <= 20 \/ Abs(Abs(v) - SA) <= 20
AxisMap(A) == Isometry(A) /\ \A i \in 1..4 : NearUnit(A[i])
SwapsAxes(A) == Abs(A[1]) <= 20
EllipseAgree(A, s1, s2, tol) ==
  ~AxisMap(A) \/ Len(s1.radii) # Len(s2.radii) \/
     \A k \in 1..Len(s1.radii) :
        \/ s1.radii[k][1] = s1.radii[k][2] \/ s1.rots[k] # 0 \/ s2.rots[k] \notin {0, 90}
        \/ LET e2 == IF s2.rots[k] = 0 THEN s2.radii[k] ELSE <<s2.radii[k][2], s2.radii[k][1]>>
                e1 == IF SwapsAxes(A) THEN <<s1.radii[k][2], s1.radii[k][1]>> ELSE s1.radii[k]
           IN Abs(e1[1] - e2[1]) <= tol + 2 /\ Abs(e1[2] - e2[2]) <= tol + 2

(* arc flags are not coordinates either: the large-arc flag is invariant, the sweep flag flips exactly  *)
(* under orientation-reversing maps (negative determinant) - no tolerance applies to them              *)
FlagsAgree(A, s1, s2) ==
  /\ Len(s1.flags) = Len(s2.flags)
  /\ \A k \in 1..Len(s1.flags) :
        /\ s1.flags[k][1] = s2.flags[k][1]
        /\ (IF A[1] * A[4] - A[2] * A[3] < 0 THEN s1.flags[k][2] # s2.flags[k][2]
                                               ELSE s1.flags[k][2] = s2.flags[k][2])

IsIdentity(A) == A = <<SA, 0, 0, SA, 0, 0>>

(***************************************************************************)
(* The fine regime (c.fine = 1): coordinates up to 2000 user units given x 10^4, *)
(* tolerance 0.001, the linear part of A x 10^8 and its translation x 10^4 (E). *)
(* The products exceed TLC's 32-bit integers, so they are formed from base-10^4 *)
(* halves: x * a = Q * SF + R exactly, a value is the pair <<Q, R>> = Q + R/SF.  *)
(* (MulQ, NegQ and AddQ are proved exact in spec/proofs/WideMul.tla with TLAPS.)  *)
(***************************************************************************)
SF == 100000000
B4 == 10000
MulQ(x, a) ==   \* x in 0..2*10^7, a in 0..4*10^8
  LET x1 == x \div B4  x0 == x % B4  a1 == a \div B4  a0 == a % B4
      M == x1 * a0 + x0 * a1
      low == (M % B4) * B4 + x0 * a0
  IN <<x1 * a1 + M \div B4 + low \div SF, low % SF>>
NegQ(p) == IF p[2] = 0 THEN <<0 - p[1], 0>> ELSE <<0 - p[1] - 1, SF - p[2]>>
SMul(x, a) == LET p == MulQ(Abs(x), Abs(a)) IN IF (x < 0) # (a < 0) THEN NegQ(p) ELSE p
AddQ(p, q) == LET r == p[2] + q[2] IN <<p[1] + q[1] + r \div SF, r % SF>>
(* | p - w | <= T *)
Within(p, w, T) == p[1] - w >= 0 - T /\ (p[1] - w < T \/ (p[1] - w = T /\ p[2] = 0))
InRange(A, s) == /\ \A k \in 1..4 : Abs(A[k]) <= 4 * SF
                 /\ Abs(s.m[1]) <= 20000000 /\ Abs(s.m[2]) <= 20000000
                 /\ \A i \in 1..Len(s.segs) : \A k \in 2..Len(s.segs[i]) : Abs(s.segs[i][k]) <= 20000000
CloseVecF(A, v, w, T) == /\ Within(AddQ(SMul(v[1], A[1]), SMul(v[2], A[3])), w[1], T)
                         /\ Within(AddQ(SMul(v[1], A[2]), SMul(v[2], A[4])), w[2], T)
MapsOntoF(A, E, s1, s2, T) ==
  /\ Len(s1.segs) = Len(s2.segs)
  /\ CloseVecF(A, s1.m, <<s2.m[1] - E[1], s2.m[2] - E[2]>>, T)
  /\ \A i \in 1..Len(s1.segs) :
       /\ s1.segs[i][1] = s2.segs[i][1]
       /\ Len(s1.segs[i]) = Len(s2.segs[i])
       /\ \A k \in 1..Len(Vecs(s1.segs[i])) : CloseVecF(A, Vecs(s1.segs[i])[k], Vecs(s2.segs[i])[k], T)

JudgeFine(c) ==
  IF c.k = "exc" THEN "ok:exception:" \o c.t
  ELSE IF c.A = <<>> THEN (IF c.expect = "found" THEN "BAD:exact-translation-not-found" ELSE "ok:none")
  ELSE IF ~InRange(c.A, c.s1) THEN "skip:out-of-range"
  ELSE IF ~MapsOntoF(c.A, c.E, c.s1, c.s2, c.tol + 2) THEN "BAD:reported-transform-does-not-map-s1-onto-s2"
  ELSE "ok:sound"

Judge(c) ==
  IF c.fine = 1 THEN JudgeFine(c) ELSE
  IF c.k = "exc" THEN "ok:exception:" \o c.t
  ELSE IF c.A = <<>>
       THEN (IF c.expect = "found" THEN "BAD:exact-translation-not-found"
             ELSE IF c.expect \in {"identity", "identity-or-any"} THEN "BAD:identical-shapes-not-matched" ELSE "ok:none")
  ELSE IF ~MapsOnto(c.A, c.s1, c.s2, c.tol) THEN "BAD:reported-transform-does-not-map-s1-onto-s2"
  ELSE IF ~RadiiAgree(c.A, c.s1, c.s2, c.tol) THEN "BAD:reported-transform-changes-arc-radii"
  ELSE IF ~FlagsAgree(c.A, c.s1, c.s2) THEN "BAD:reported-transform-maps-arcs-onto-other-arcs"
  ELSE IF ~EllipseAgree(c.A, c.s1, c.s2, c.tol) THEN "BAD:reported-transform-does-not-turn-the-ellipse-axes"
  ELSE IF c.expect = "identity" /\ ~IsIdentity(c.A) THEN "BAD:identical-shapes-not-identity"
  ELSE "ok:sound"

NCases == Len(Cases)
NBlk == 64
Init == blk \in 1..NBlk /\ tid = 0 /\ verdict = "block"
Fan == /\ verdict = "block"
       /\ \E t \in 1..NCases : t % NBlk = blk - 1 /\ tid' = t
       /\ verdict' = "pending" /\ UNCHANGED blk
Do == /\ verdict = "pending"
      /\ verdict' = Judge(Cases[tid])
      /\ PrintT("V " \o ToString(tid) \o " " \o verdict')
      /\ UNCHANGED <<tid, blk>>
Next == Fan \/ Do
Spec == Init /\ [][Next]_<<blk, tid, verdict>>
=============================================================================
