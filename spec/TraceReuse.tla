------------------------------ MODULE TraceReuse ------------------------------
(***************************************************************************)
(* L1 + L3 for C20.  A trace is one call affine_between(s1, s2, tol):       *)
(*   s1, s2 |-> [m |-> first move <<x, y>>, segs |-> Seq(<<kind, v...>>)]    *)
(*       segments in relative form (every control/end point as a vector      *)
(*       from the segment's start), coordinates x 1000                        *)
(*   tol x 1000;  A |-> <<a,b,c,d,e,f>> x 10000 | <<>> (None)                 *)
(*   expect |-> "any" | "found" (s2 is an exact translate of s1) |           *)
(*              "identity" (s2 = s1)                                          *)
(* MapsOnto: same commands, and A applied to the first move (as a point) and *)
(* to every vector of s1 reproduces s2 within tol (per coordinate).           *)
(***************************************************************************)
EXTENDS Naturals, Integers, Sequences, Json, IOUtils, TLC

Cases == ndJsonDeserialize(IOEnv.TRACES)
VARIABLES blk, tid, verdict

Abs(x) == IF x < 0 THEN -x ELSE x
SA == 10000

(* A (x SA) applied to a vector v (x 1000) -> x 1000 * SA *)
LinX(A, v) == A[1] * v[1] + A[3] * v[2]
LinY(A, v) == A[2] * v[1] + A[4] * v[2]

CloseVec(A, v, w, tol) == /\ Abs(LinX(A, v) - w[1] * SA) <= (tol + 2) * SA
                          /\ Abs(LinY(A, v) - w[2] * SA) <= (tol + 2) * SA
ClosePt(A, p, q, tol) == /\ Abs(LinX(A, p) + A[5] * 1000 - q[1] * SA) <= (tol + 2) * SA
                         /\ Abs(LinY(A, p) + A[6] * 1000 - q[2] * SA) <= (tol + 2) * SA

Vecs(seg) == [k \in 1..((Len(seg) - 1) \div 2) |-> <<seg[2 * k], seg[2 * k + 1]>>]

MapsOnto(A, s1, s2, tol) ==
  /\ Len(s1.segs) = Len(s2.segs)
  /\ ClosePt(A, s1.m, s2.m, tol)
  /\ \A i \in 1..Len(s1.segs) :
       /\ s1.segs[i][1] = s2.segs[i][1]
       /\ Len(s1.segs[i]) = Len(s2.segs[i])
       /\ \A k \in 1..Len(Vecs(s1.segs[i])) : CloseVec(A, Vecs(s1.segs[i])[k], Vecs(s2.segs[i])[k], tol)

(* arc radii are not coordinates; under a map with unit determinant and orthogonal columns (rotation, *)
(* mirror, translation) a circular arc keeps its radius                                               *)
Isometry(A) == /\ Abs(A[1] * A[4] - A[2] * A[3]) >= SA * SA - SA * 20 /\ Abs(A[1] * A[4] - A[2] * A[3]) <= SA * SA + SA * 20
               /\ Abs(A[1] * A[3] + A[2] * A[4]) <= SA * 20
               /\ Abs(A[1] * A[1] + A[2] * A[2] - SA * SA) <= SA * 40
RadiiAgree(A, s1, s2, tol) ==
  ~Isometry(A) \/ (Len(s1.radii) = Len(s2.radii) /\
     \A k \in 1..Len(s1.radii) : s1.radii[k][1] # s1.radii[k][2]
                                  \/ (Abs(s1.radii[k][1] - s2.radii[k][1]) <= tol + 2
                                      /\ Abs(s1.radii[k][2] - s2.radii[k][2]) <= tol + 2))

IsIdentity(A) == A = <<SA, 0, 0, SA, 0, 0>>

Judge(c) ==
  IF c.k = "exc" THEN "ok:exception:" \o c.t
  ELSE IF c.A = <<>>
       THEN (IF c.expect = "found" THEN "BAD:exact-translation-not-found"
             ELSE IF c.expect = "identity" THEN "BAD:identical-shapes-not-matched" ELSE "ok:none")
  ELSE IF ~MapsOnto(c.A, c.s1, c.s2, c.tol) THEN "BAD:reported-transform-does-not-map-s1-onto-s2"
  ELSE IF ~RadiiAgree(c.A, c.s1, c.s2, c.tol) THEN "BAD:reported-transform-changes-arc-radii"
  ELSE IF c.expect = "identity" /\ ~IsIdentity(c.A) THEN "BAD:identical-shapes-not-identity"
  ELSE "ok:sound"

NCases == Len(Cases)
NBlk == 64
Init == blk \in 1..NBlk /\ tid = 0 /\ verdict = "block"
Fan == /\ verdict = "block"
       /\ \E t \in 1..NCases : t % NBlk = blk - 1 /\ tid' = t
       /\ verdict' = "pending" /\ UNCHANGED blk
Do == /\ verdict = "pending"
      /\ verdict' = Judge(Cases[tid])
      /\ PrintT("V " \o ToString(tid) \o " " \o verdict')
      /\ UNCHANGED <<tid, blk>>
Next == Fan \/ Do
Spec == Init /\ [][Next]_<<blk, tid, verdict>>
=============================================================================
