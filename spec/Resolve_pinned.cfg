SPECIFICATION Spec
CONSTANTS
  N = 2
  Guard = FALSE
  MaxSize = 64
INVARIANT RoundsBounded
CHECK_DEADLOCK FALSE
