----------------------------- MODULE TraceStroke -----------------------------
(***************************************************************************)
(* L3 trace spec for C04: as TraceRender, with stroke layers.  Membership  *)
(* in a stroke layer is three-valued (StrokeSem); a sample point is judged *)
(* only when every source layer is decided ("in"/"out") there and at its 8  *)
(* neighbours, identically.  Scope (as the property states): a shape whose  *)
(* fill AND stroke are visible must have own opacity 1.                      *)
(***************************************************************************)
EXTENDS StrokeSem, Json, IOUtils, TLC

Cases == ndJsonDeserialize(IOEnv.TRACES)
VARIABLES blk, tid, verdict

Samples(vb) == IF IOEnv.DENSE = "1"
               THEN { <<4 * i + 1, 4 * j + 2>> : i \in (2 * (vb[1] - 2))..(2 * (vb[1] + vb[3] + 2) - 1),
                                                 j \in (2 * (vb[2] - 2))..(2 * (vb[2] + vb[4] + 2) - 1) }
               ELSE { <<8 * i + 2, 8 * j + 5>> : i \in (vb[1] - 2)..(vb[1] + vb[3] + 1),
                                                 j \in (vb[2] - 2)..(vb[2] + vb[4] + 1) }

Mem(l, p) ==
  IF l.kind # "stroke" THEN (IF SrcIn(l, p) THEN "in" ELSE "out")
  ELSE IF Det(l.shape.m) = 0 THEN "out"
  ELSE IF ~InClips(l.clips, p) THEN "out"
  ELSE StrokeMem(l.shape.tag, l.shape.g, l.sp, PreImage(l.shape.m, p[1], p[2], U), l.cs)

MemIn(l, p) == Mem(l, p) = "in"

InScope(src) == ~\E a, b \in 1..Len(src) : src[a].kind = "fill" /\ src[b].kind = "stroke"
                                           /\ src[a].ni = src[b].ni /\ src[a].eo # 0

Judge(c) ==
  IF c.out.k # "ok" THEN "ok:exception:" \o c.out.t
  ELSE LET src0 == Layers(c.doc)
           \* per-layer precomputation (contours, stroke parameters): operators are not memoised
           src == [k \in 1..Len(src0) |->
                     IF src0[k].kind = "stroke"
                     THEN [shape |-> src0[k].shape, clips |-> src0[k].clips, paint |-> src0[k].paint,
                           e |-> src0[k].e, grp |-> src0[k].grp, kind |-> "stroke", ni |-> src0[k].ni,
                           eo |-> src0[k].eo, sp |-> StrokeParams(src0[k].ctx),
                           cs |-> StrokeContours(src0[k].shape.tag, src0[k].shape.g)]
                     ELSE [shape |-> src0[k].shape, clips |-> src0[k].clips, paint |-> src0[k].paint,
                           e |-> src0[k].e, grp |-> src0[k].grp, kind |-> "fill", ni |-> src0[k].ni,
                           eo |-> src0[k].eo]]
           out == c.out.layers
       IN IF ~InScope(src) THEN "ok:out-of-scope"
          ELSE LET S(p) == StackAt(src, MemIn, p)
                   Decided(p) == \A k \in 1..Len(src) : Mem(src[k], p) # "band"
                                   /\ \A q \in NbrsR(p, BandR(c.doc.view)) : Mem(src[k], q) = Mem(src[k], p)
                   bad == { p \in Samples(c.doc.vb) : OutStack(out, p) # S(p) /\ Decided(p) }
                   nS == Cardinality({k \in 1..Len(src) : src[k].kind = "stroke"})
               IN IF bad # {} THEN LET p == CHOOSE p \in bad : TRUE
                                   IN "BAD:render@" \o ToString(p[1]) \o "," \o ToString(p[2])
                  ELSE IF nS > 0 THEN "ok:stroke" ELSE IF src = <<>> THEN "ok:empty" ELSE "ok:render"

NCases == Len(Cases)
NBlk == 64
Init == blk \in 1..NBlk /\ tid = 0 /\ verdict = "block"
Fan == /\ verdict = "block"
       /\ \E t \in 1..NCases : t % NBlk = blk - 1 /\ tid' = t
       /\ verdict' = "pending" /\ UNCHANGED blk
Do == /\ verdict = "pending"
      /\ verdict' = Judge(Cases[tid])
      /\ PrintT("V " \o ToString(tid) \o " " \o verdict')
      /\ UNCHANGED <<tid, blk>>
Next == Fan \/ Do
Spec == Init /\ [][Next]_<<blk, tid, verdict>>
=============================================================================
