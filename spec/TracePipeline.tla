---------------------------- MODULE TracePipeline ----------------------------
(***************************************************************************)
(* L3 binding of Pipeline.tla: the "step" events that the hooks record in  *)
(* the real topicosvg must be a run of the model's program (the three       *)
(* extra discard steps are stuttering steps of discard_noise; the loop is   *)
(* remove_unpainted_shapes (dissolved_groups_and_rounded                     *)
(* remove_unpainted_shapes)* ).  A mismatch means the model no longer        *)
(* describes the code's step order: reported as model drift, never as a      *)
(* violation of a property.                                                  *)
(***************************************************************************)
EXTENDS Naturals, Sequences, Json, IOUtils, TLC

Cases == ndJsonDeserialize(IOEnv.TRACES)
VARIABLES blk, tid, verdict

Prog(drop) ==
  <<"remove_nonsvg_content", "remove_processing_instructions", "remove_anonymous_symbols",
    "remove_title_meta_desc", "apply_style_attributes", "resolve_nested_svgs", "shapes_to_paths",
    "expand_shorthand", "resolve_use", "simplify">>
  \o (IF drop = 1 THEN <<"drop_unsupported">> ELSE <<>>)
  \o <<"evenodd_to_nonzero_winding", "normalize_opacity", "absolute", "round_floats",
       "remove_empty_subpaths", "LOOP", "_remove_orphaned_gradients", "checkpicosvg">>

RECURSIVE Run(_, _, _, _)
(* i: position in the program, l: position in the log; returns "ok" or the first mismatch *)
Run(prog, i, ev, l) ==
  IF i > Len(prog) THEN (IF l > Len(ev) THEN "ok" ELSE "extra-event:" \o ev[l])
  ELSE IF l > Len(ev) THEN "ok:stopped-early"            \* an exception ended the conversion
  ELSE IF prog[i] = "LOOP"
       THEN IF ev[l] # "remove_unpainted_shapes" THEN "expected-loop-got:" \o ev[l]
            ELSE IF l + 1 <= Len(ev) /\ ev[l + 1] = "dissolved_groups_and_rounded"
                 THEN Run(prog, i, ev, l + 2)
                 ELSE Run(prog, i + 1, ev, l + 1)
  ELSE IF ev[l] = prog[i] THEN Run(prog, i + 1, ev, l + 1)
  ELSE "expected:" \o prog[i] \o ":got:" \o ev[l]

Judge(c) == LET r == Run(Prog(c.drop), 1, c.ev, 1)
            IN IF r = "ok" THEN "ok:order" ELSE IF r = "ok:stopped-early" THEN r ELSE "drift:" \o r

NCases == Len(Cases)
NBlk == 64
Init == blk \in 1..NBlk /\ tid = 0 /\ verdict = "block"
Fan == /\ verdict = "block"
       /\ \E t \in 1..NCases : t % NBlk = blk - 1 /\ tid' = t
       /\ verdict' = "pending" /\ UNCHANGED blk
Do == /\ verdict = "pending"
      /\ verdict' = Judge(Cases[tid])
      /\ PrintT("V " \o ToString(tid) \o " " \o verdict')
      /\ UNCHANGED <<tid, blk>>
Next == Fan \/ Do
Spec == Init /\ [][Next]_<<blk, tid, verdict>>
=============================================================================
