---------------------------- MODULE TracePipeline ----------------------------
(***************************************************************************)
(* L3 binding of Pipeline.tla.  The "step" hook records, for every step of  *)
(* the real topicosvg, its name and the residues the document contains      *)
(* afterwards (observation function harness/pipeline_obs.py).  Each         *)
(* recorded step must be a step of the model:                               *)
(*   - the names follow the model's program (the three extra discard steps   *)
(*     stutter; the loop is remove_unpainted_shapes                           *)
(*     (dissolved_groups_and_rounded remove_unpainted_shapes)* );             *)
(*   - the observed document is one the model allows after that step:         *)
(*       obs \subseteq (prev \ Removes(step)) \cup MayCreate(step)             *)
(* A mismatch means the model no longer describes the code (step order, or    *)
(* what a step cleans up / may leave behind): reported as MODEL DRIFT, never   *)
(* as a violation of a property (C01/C07/C08 judge the final document).        *)
(***************************************************************************)
EXTENDS Pipeline, Json, IOUtils

Cases == ndJsonDeserialize(IOEnv.TRACES)
VARIABLES blk, tid, verdict

ModelStep(n) == CASE n \in {"remove_nonsvg_content", "remove_processing_instructions",
                            "remove_anonymous_symbols"} -> "stutter"
                  [] n = "remove_title_meta_desc" -> "discard_noise"
                  [] n = "_remove_orphaned_gradients" -> "purge_orphans"
                  [] n = "checkpicosvg" -> "check"
                  [] OTHER -> n

Prog(drop) ==
  <<"remove_nonsvg_content", "remove_processing_instructions", "remove_anonymous_symbols",
    "remove_title_meta_desc", "apply_style_attributes", "resolve_nested_svgs", "shapes_to_paths",
    "expand_shorthand", "resolve_use", "simplify">>
  \o (IF drop = 1 THEN <<"drop_unsupported">> ELSE <<>>)
  \o <<"evenodd_to_nonzero_winding", "normalize_opacity", "absolute", "round_floats",
       "remove_empty_subpaths", "LOOP", "_remove_orphaned_gradients", "checkpicosvg">>

SetOf(s) == {s[i] : i \in 1..Len(s)}

(* the residues of obs that the model does not allow after model step ms from prev *)
Extra(prev, ms, obs) ==
  IF ms = "stutter" THEN obs \ (prev \cup MayCreate("discard_noise"))   \* partial discard
  ELSE IF ms = "check" THEN (obs \ prev) \cup (prev \ obs)
  ELSE IF ms = "dissolved_groups_and_rounded"
  THEN obs \ ((prev \ {"needlessgroup", "unrounded"}) \cup MayCreate("dissolve_groups"))
  ELSE obs \ ((prev \ Removes(ms)) \cup MayCreate(ms))
Allowed(prev, ms, obs) == Extra(prev, ms, obs) = {}
Why(prev, ev, ms, obs) == "state-after:" \o ev \o ":" \o ToString(Extra(prev, ms, obs))

RECURSIVE Run(_, _, _, _, _, _)
Run(prog, i, ev, res, l, prev) ==
  IF i > Len(prog) THEN (IF l > Len(ev) THEN "ok" ELSE "extra-event:" \o ev[l])
  ELSE IF l > Len(ev) THEN "ok:stopped-early"            \* an exception ended the conversion
  ELSE LET obs == SetOf(res[l])
           expect == IF prog[i] = "LOOP" THEN "remove_unpainted_shapes" ELSE prog[i]
       IN IF prog[i] = "LOOP" /\ ev[l] = "dissolved_groups_and_rounded"
          THEN (IF Allowed(prev, "dissolved_groups_and_rounded", obs) THEN Run(prog, i, ev, res, l + 1, obs)
                ELSE Why(prev, ev[l], "dissolved_groups_and_rounded", obs))
          ELSE IF ev[l] # expect THEN "expected:" \o expect \o ":got:" \o ev[l]
          ELSE IF ~Allowed(prev, ModelStep(ev[l]), obs) THEN Why(prev, ev[l], ModelStep(ev[l]), obs)
          ELSE IF prog[i] = "LOOP" /\ l + 1 <= Len(ev) /\ ev[l + 1] = "dissolved_groups_and_rounded"
               THEN Run(prog, i, ev, res, l + 1, obs)
          ELSE Run(prog, i + 1, ev, res, l + 1, obs)

Judge(c) == LET r == Run(Prog(c.drop), 1, c.ev, c.res, 1, SetOf(c.res0))
            IN IF r = "ok" THEN "ok:refines" ELSE IF r = "ok:stopped-early" THEN r ELSE "drift:" \o r

NCases == Len(Cases)
NBlk == 64
TInit == blk \in 1..NBlk /\ tid = 0 /\ verdict = "block" /\ pc = 0 /\ doc = {} /\ log = <<>>
Fan == /\ verdict = "block"
       /\ \E t \in 1..NCases : t % NBlk = blk - 1 /\ tid' = t
       /\ verdict' = "pending" /\ UNCHANGED <<blk, pc, doc, log>>
Do == /\ verdict = "pending"
      /\ verdict' = Judge(Cases[tid])
      /\ PrintT("V " \o ToString(tid) \o " " \o verdict')
      /\ UNCHANGED <<tid, blk, pc, doc, log>>
TNext == Fan \/ Do
TSpec == TInit /\ [][TNext]_<<blk, tid, verdict, pc, doc, log>>
=============================================================================
