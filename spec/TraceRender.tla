---------------------------- MODULE TraceRender ----------------------------
(***************************************************************************)
(* L3 trace spec for the rendering properties (C02, C03, C05 and, with     *)
(* extra layer kinds, C04, C06, C19).  A trace is one conversion:           *)
(*   [doc |-> ADoc (what TLC generated and the concretiser wrote out),      *)
(*    out |-> [k |-> "ok", layers |-> projected output] | [k |-> "exc", t]]  *)
(* TLC recomputes the paint stack of the SOURCE from the abstract document  *)
(* with SvgSem and the paint stack of the OUTPUT from the projected         *)
(* polygons, and compares them at every sample point whose 8 neighbours at  *)
(* 1/8 unit agree in the source (outside the epsilon band of every edge).   *)
(***************************************************************************)
EXTENDS SvgSem, Json, IOUtils, TLC

Cases == ndJsonDeserialize(IOEnv.TRACES)

VARIABLES blk, tid, verdict

(* sample points: one per unit cell (at 1/4, 5/8 of the cell: off every lattice line and diagonal) of the viewBox grown by 2 units; *)
(* thorough runs use the half-unit lattice (Dense)                                            *)
Samples(vb) == IF IOEnv.DENSE = "1"
               THEN { <<4 * i + 1, 4 * j + 2>> :
                        i \in (2 * (vb[1] - 2))..(2 * (vb[1] + vb[3] + 2) - 1),
                        j \in (2 * (vb[2] - 2))..(2 * (vb[2] + vb[4] + 2) - 1) }
               ELSE { <<8 * i + 2, 8 * j + 5>> :
                        i \in (vb[1] - 2)..(vb[1] + vb[3] + 1),
                        j \in (vb[2] - 2)..(vb[2] + vb[4] + 1) }

Judge(c) ==
  IF c.out.k # "ok" THEN "ok:exception:" \o c.out.t
  ELSE LET src == Layers(c.doc)
           out == c.out.layers
           S(p) == SrcStack(src, p)
           Robust(p) == LET cv == SrcCover(src, p) IN \A q \in NbrsR(p, BandR(c.doc.view)) : SrcCover(src, q) = cv
           bad == { p \in Samples(c.doc.vb) : OutStack(out, p) # S(p) /\ Robust(p) }
       IN IF bad = {} THEN (IF src = <<>> THEN "ok:empty" ELSE "ok:render")
          ELSE LET p == CHOOSE p \in bad : TRUE
               IN "BAD:render@" \o ToString(p[1]) \o "," \o ToString(p[2])

NCases == Len(Cases)
NBlk == 64
Init == blk \in 1..NBlk /\ tid = 0 /\ verdict = "block"
Fan == /\ verdict = "block"
       /\ \E t \in 1..NCases : t % NBlk = blk - 1 /\ tid' = t
       /\ verdict' = "pending" /\ UNCHANGED blk
Do == /\ verdict = "pending"
      /\ verdict' = Judge(Cases[tid])
      /\ PrintT("V " \o ToString(tid) \o " " \o verdict')
      /\ UNCHANGED <<tid, blk>>
Next == Fan \/ Do
Spec == Init /\ [][Next]_<<blk, tid, verdict>>
=============================================================================
