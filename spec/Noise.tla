------------------------------- MODULE Noise -------------------------------
(***************************************************************************)
(* L2 environment model for C14: content that renderers ignore.  For every *)
(* base document (drawn from Build.tla and handed over in a file) TLC      *)
(* enumerates EVERY single insertion of every noise kind at every tree     *)
(* position (BFS, exhaustive) and emits the noisy document; Strip is the    *)
(* inverse by construction (the base document).                             *)
(***************************************************************************)
EXTENDS Naturals, Integers, Sequences, TLC, Json, IOUtils

Docs == ndJsonDeserialize(IOEnv.DOCS)

LeafKinds == {"#comment", "#pi", "title", "desc", "metadata", "foreign", "anonsymbol", "metanest"}
Kinds == LeafKinds \cup {"wrap", "foreignattr", "ws", "xmldecl"}

VARIABLES di, kind, pos, dep
vars == <<di, kind, pos, dep>>

Nd(tag, d) == [d |-> d, tag |-> tag, id |-> "", at |-> <<>>, g |-> <<>>, ref |-> ""]

RECURSIVE SubEnd(_, _, _)
SubEnd(ns, i, j) == IF j + 1 <= Len(ns) /\ ns[j + 1].d > ns[i].d THEN SubEnd(ns, i, j + 1) ELSE j

(* depths at which a new node may be inserted before index p (p = Len+1: at the end) *)
ValidDepths(ns, p) ==
  LET lo == IF p <= Len(ns) THEN ns[p].d ELSE 1
      hi == IF p = 1 THEN 1 ELSE ns[p - 1].d + 1
  IN lo..hi

InsertLeaf(ns, p, d, k) ==
  LET new == IF k = "anonsymbol"
             THEN << Nd("symbol", d),
                     [d |-> d + 1, tag |-> "rect", id |-> "", at |-> << <<"fill", "red", 0>> >>,
                      g |-> <<0, 0, 16, 16, -1, -1>>, ref |-> ""] >>
             ELSE IF k = "metanest"      \* descriptive elements nest: <metadata><title/><desc/></metadata>
             THEN << Nd("metadata", d), Nd("title", d + 1), Nd("desc", d + 1) >>
             ELSE << Nd(k, d) >>
  IN SubSeq(ns, 1, p - 1) \o new \o SubSeq(ns, p, Len(ns))

NoWrapInside == {"clipPath", "linearGradient", "radialGradient", "symbol", "text", "filter", "mask"}
CanWrap(ns, p) ==
  /\ p <= Len(ns)
  /\ ns[p].tag \notin {"stop"}
  /\ ~\E j \in 1..(p - 1) : ns[j].tag \in NoWrapInside /\ SubEnd(ns, j, j) >= p

(* wrap the subtree at p (and, when two = TRUE and there is one, its next sibling) in a plain g *)
Wrap(ns, p, two) ==
  LET e1 == SubEnd(ns, p, p)
      e  == IF two /\ e1 + 1 <= Len(ns) /\ ns[e1 + 1].d = ns[p].d THEN SubEnd(ns, e1 + 1, e1 + 1) ELSE e1
  IN SubSeq(ns, 1, p - 1) \o << Nd("g", ns[p].d) >>
       \o [k \in 1..(e - p + 1) |-> [ns[p + k - 1] EXCEPT !.d = @ + 1]]
       \o SubSeq(ns, e + 1, Len(ns))

Emit(doc, k, p, d, flags) ==
  PrintT("CASE " \o ToJson([base |-> di, kind |-> k, pos |-> p, dep |-> d, doc |-> doc, flags |-> flags]))

Init == di \in 1..Len(Docs) /\ kind = "" /\ pos = 0 /\ dep = 0

Next ==
  /\ kind = ""
  /\ LET doc == Docs[di]  ns == doc.nodes
     IN \/ \E k \in LeafKinds, p \in 1..(Len(ns) + 1) : \E d \in ValidDepths(ns, p) :
             /\ kind' = k /\ pos' = p /\ dep' = d
             /\ Emit([doc EXCEPT !.nodes = InsertLeaf(ns, p, d, k)], k, p, d, <<>>)
        \/ \E p \in 1..Len(ns), two \in {0, 1} :
             /\ CanWrap(ns, p)
             /\ kind' = "wrap" /\ pos' = p /\ dep' = two
             /\ Emit([doc EXCEPT !.nodes = Wrap(ns, p, two = 1)], "wrap", p, two, <<>>)
        \/ \E p \in 1..Len(ns) :
             /\ kind' = "foreignattr" /\ pos' = p /\ dep' = 0
             /\ Emit([doc EXCEPT !.nodes[p].at = Append(@, <<"foo:bar", "baz", 0>>)], "foreignattr", p, 0, <<>>)
        \/ \E k \in {"ws", "xmldecl"} :
             /\ kind' = k /\ pos' = 0 /\ dep' = 0
             /\ Emit(doc, k, 0, 0, <<k>>)
  /\ UNCHANGED di

Spec == Init /\ [][Next]_vars
=============================================================================
