------------------------------ MODULE TraceBool ------------------------------
(***************************************************************************)
(* L3 trace spec for C13 (and the geometric clauses of C18/C19 reuse it).  *)
(* A trace is one call of a boolean path operation of the real code:       *)
(*   [op |-> "union" | "intersection" | "difference" | "remove_overlaps",   *)
(*    opnds |-> Seq([kind |-> "poly", polys |-> contours in user units        *)
(*                   (kind "fine": flattened curves in 1/64 units),            *)
(*                   rule] | [kind |-> "ellipse", g |-> <<cx,cy,rx,ry>>]),   *)
(*    r |-> [k |-> "ok", polys |-> result contours in 1/64 units, bb]        *)
(*        | [k |-> "exc", t]]                                                 *)
(* Expected(p) is the set combination of the operands' interiors, each      *)
(* under its own rule; the result must have exactly that interior under the  *)
(* nonzero AND under the evenodd rule, at every sample point that is robust  *)
(* (all 8 neighbours at 1/8 unit agree) for the operands and the result.     *)
(* An exception is an accepted outcome (the engine could not compute).        *)
(***************************************************************************)
EXTENDS SvgSem, Json, IOUtils, TLC

Cases == ndJsonDeserialize(IOEnv.TRACES)
VARIABLES blk, tid, verdict

(* kind "fine": a curved operand, given by its flattening in 1/64 units (like the result) *)
InOpnd(o, p) == IF o.kind = "ellipse" THEN EllipseIn(<<p[1], p[2], 8>>, o.g[1], o.g[2], o.g[3], o.g[4])
                ELSE IF o.kind = "fine" THEN ByRule(WindAll(o.polys, <<8 * p[1], 8 * p[2], 1>>, 1, 0), o.rule)
                ELSE ByRule(WindAll(o.polys, <<p[1], p[2], 8>>, 1, 0), o.rule)

Expected(op, os, p) ==
  CASE op = "union"           -> \E i \in 1..Len(os) : InOpnd(os[i], p)
    [] op = "intersection"    -> \A i \in 1..Len(os) : InOpnd(os[i], p)
    [] op = "difference"      -> InOpnd(os[1], p) /\ ~\E i \in 2..Len(os) : InOpnd(os[i], p)
    [] op = "remove_overlaps" -> InOpnd(os[1], p)

(* winding number of the result about p (0 outside its bounding box) *)
ResW(r, p) == IF r.bb[1] <= 8 * p[1] /\ 8 * p[1] <= r.bb[3] /\ r.bb[2] <= 8 * p[2] /\ 8 * p[2] <= r.bb[4]
              THEN WindAll(r.polys, <<8 * p[1], 8 * p[2], 1>>, 1, 0) ELSE 0

(* sample lattice over the box <<x0, y0, x1, y1>> (user units): step = 2 (quarter unit) or 4 *)
Lattice(box, step) == { <<step * i + 1, step * j + 2>> : i \in ((8 \div step) * box[1])..((8 \div step) * box[3] - 1),
                                                        j \in ((8 \div step) * box[2])..((8 \div step) * box[4] - 1) }

Judge(c) ==
  IF c.r.k # "ok" THEN "ok:exception"
  ELSE LET E(p) == Expected(c.op, c.opnds, p)
           RobustO(p) == \A q \in Nbrs(p) : \A i \in 1..Len(c.opnds) : InOpnd(c.opnds[i], q) = InOpnd(c.opnds[i], p)
           RobustR(p) == \A q \in Nbrs(p) : ResW(c.r, q) = ResW(c.r, p)
           pts == Lattice(c.box, IF IOEnv.DENSE = "1" THEN 2 ELSE 4)
           \* per point: 0 fine, 1 interior differs from the expected set, 2 interior depends on the rule
           Cls(p) == LET w == ResW(c.r, p)
                     IN IF (w # 0) # E(p) /\ RobustO(p) /\ RobustR(p) THEN 1
                        ELSE IF (w # 0) # (w % 2 = 1) /\ RobustR(p) THEN 2 ELSE 0
           bad == { p \in pts : Cls(p) # 0 }
       IN IF bad # {} THEN LET p == CHOOSE p \in bad : TRUE
                           IN (IF Cls(p) = 1 THEN "BAD:set-differs@" ELSE "BAD:rule-dependent@")
                                \o ToString(p[1]) \o "," \o ToString(p[2])
          ELSE IF \E p \in pts : E(p) THEN "ok:setop" ELSE "ok:empty"

NCases == Len(Cases)
NBlk == 64
Init == blk \in 1..NBlk /\ tid = 0 /\ verdict = "block"
Fan == /\ verdict = "block"
       /\ \E t \in 1..NCases : t % NBlk = blk - 1 /\ tid' = t
       /\ verdict' = "pending" /\ UNCHANGED blk
Do == /\ verdict = "pending"
      /\ verdict' = Judge(Cases[tid])
      /\ PrintT("V " \o ToString(tid) \o " " \o verdict')
      /\ UNCHANGED <<tid, blk>>
Next == Fan \/ Do
Spec == Init /\ [][Next]_<<blk, tid, verdict>>
=============================================================================
