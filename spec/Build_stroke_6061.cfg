SPECIFICATION Spec
CONSTANTS
  Focus = "stroke"
  MaxNodes = 7
  MaxDepth = 4
INVARIANT WellFormed
CHECK_DEADLOCK FALSE
