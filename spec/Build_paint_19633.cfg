SPECIFICATION Spec
CONSTANTS
  Focus = "paint"
  MaxNodes = 8
  MaxDepth = 4
INVARIANT WellFormed
CHECK_DEADLOCK FALSE
