------------------------------ MODULE TraceClip ------------------------------
(***************************************************************************)
(* L3 trace spec for C19.                                                   *)
(*  kind "clip": a picosvg (projected layers a), a viewBox vb (user units)  *)
(*      and the result of the real clip_to_viewbox (projected layers b, its  *)
(*      structural projection outp) - the painted stack of b must be the     *)
(*      stack of a inside vb and empty outside, and b must still be picosvg; *)
(*  kind "bbox": a shape's outline as dense points (1/1000 unit) and the     *)
(*      bounding box the real code reported - it must contain every point    *)
(*      and touch the geometry on all four sides within delta.               *)
(***************************************************************************)
EXTENDS SvgSem, Json, IOUtils, TLC

PG == INSTANCE PicoGrammar

Cases == ndJsonDeserialize(IOEnv.TRACES)
VARIABLES blk, tid, verdict

InVb(vb, p) == 8 * vb[1] <= p[1] /\ p[1] <= 8 * (vb[1] + vb[3]) /\ 8 * vb[2] <= p[2] /\ p[2] <= 8 * (vb[2] + vb[4])

Samples(box) == { <<4 * i + 1, 4 * j + 2>> : i \in (2 * box[1])..(2 * box[3] - 1), j \in (2 * box[2])..(2 * box[4] - 1) }

JudgeClip(c) ==
  IF c.b.k # "ok" THEN "ok:exception"
  ELSE LET A(p) == IF InVb(c.vb, p) THEN OutStack(c.a, p) ELSE <<>>
           B(p) == OutStack(c.b.layers, p)
           Robust(p) == LET cv == OutCover(c.a, p) IN \A q \in Nbrs(p) : OutCover(c.a, q) = cv /\ InVb(c.vb, q) = InVb(c.vb, p)
           bad == { p \in Samples(c.box) : B(p) # A(p) /\ Robust(p) }
           gv == PG!Violations(c.b.outp, 30, FALSE)   \* no digits are requested from clip_to_viewbox
           rv == PG!RefViolations(c.b.outp)           \* ... nor a gradient that lost its last user
           \* exactness at the border itself (the samples stay 1/8 away from it): no painted layer of the
           \* result reaches beyond the viewBox by more than the 1/64 quantisation of the projection
           over == { i \in 1..Len(c.b.layers) :
                       LET bb == c.b.layers[i].bb
                       IN c.b.layers[i].polys # <<>> /\
                          (bb[1] < 64 * c.vb[1] - 1 \/ bb[2] < 64 * c.vb[2] - 1
                           \/ bb[3] > 64 * (c.vb[1] + c.vb[3]) + 1 \/ bb[4] > 64 * (c.vb[2] + c.vb[4]) + 1) }
       IN IF bad # {} THEN LET p == CHOOSE p \in bad : TRUE
                           IN "BAD:clip-render@" \o ToString(p[1]) \o "," \o ToString(p[2])
          ELSE IF over # {} THEN "BAD:clipped-layer-extends-outside-viewbox"
          ELSE IF gv # {} THEN "BAD:clipped-not-pico:" \o (CHOOSE v \in gv : TRUE)
          ELSE IF rv # {} THEN "BAD:clipped-not-pico:" \o (CHOOSE v \in rv : TRUE)
          ELSE IF \E p \in Samples(c.box) : OutStack(c.a, p) # <<>> /\ ~InVb(c.vb, p) THEN "ok:clipped"
          ELSE "ok:nothing-outside"

RECURSIVE MinMax(_, _, _, _)
(* <<min, max>> of coordinate k (1 = x, 2 = y) over the flat point list *)
MinMax(pts, i, k, acc) ==
  IF i > Len(pts) \div 2 THEN acc
  ELSE LET v == pts[2 * (i - 1) + k]
       IN MinMax(pts, i + 1, k, <<IF v < acc[1] THEN v ELSE acc[1], IF v > acc[2] THEN v ELSE acc[2]>>)

JudgeBBox(c) ==
  IF c.bb = <<>> THEN "ok:exception"
  ELSE LET mx == MinMax(c.pts, 1, 1, <<c.pts[1], c.pts[1]>>)
           my == MinMax(c.pts, 1, 2, <<c.pts[2], c.pts[2]>>)
           x0 == c.bb[1]  y0 == c.bb[2]  x1 == c.bb[3]  y1 == c.bb[4]
           contains == x0 <= mx[1] + 1 /\ mx[2] <= x1 + 1 /\ y0 <= my[1] + 1 /\ my[2] <= y1 + 1
           touches == mx[1] - x0 <= c.delta /\ x1 - mx[2] <= c.delta
                      /\ my[1] - y0 <= c.delta /\ y1 - my[2] <= c.delta
       IN IF ~contains THEN "BAD:bbox-does-not-contain-geometry"
          ELSE IF ~touches THEN "BAD:bbox-not-tight"
          ELSE "ok:bbox"

Judge(c) == IF c.kind = "clip" THEN JudgeClip(c) ELSE JudgeBBox(c)

NCases == Len(Cases)
NBlk == 64
Init == blk \in 1..NBlk /\ tid = 0 /\ verdict = "block"
Fan == /\ verdict = "block"
       /\ \E t \in 1..NCases : t % NBlk = blk - 1 /\ tid' = t
       /\ verdict' = "pending" /\ UNCHANGED blk
Do == /\ verdict = "pending"
      /\ verdict' = Judge(Cases[tid])
      /\ PrintT("V " \o ToString(tid) \o " " \o verdict')
      /\ UNCHANGED <<tid, blk>>
Next == Fan \/ Do
Spec == Init /\ [][Next]_<<blk, tid, verdict>>
=============================================================================
