SPECIFICATION TSpec
CONSTANTS
  Repaired = TRUE
  Drop = TRUE
CHECK_DEADLOCK FALSE
