------------------------------ MODULE TraceDoc ------------------------------
(***************************************************************************)
(* L3 trace spec for the structural properties of a conversion:            *)
(*   C01 grammar (PicoGrammar!Violations), C08 references (RefViolations), *)
(*   C07 idempotence (the three passes as an event sequence).               *)
(* One trace = one document x one option vector:                            *)
(*   [prop, nd, at (allow_text 0/1), dr (drop_unsupported 0/1),             *)
(*    r |-> [k |-> "ok", out |-> projection, h |-> <<h1,h2,h3>>,             *)
(*           self |-> #violations reported by checkpicosvg on pass 1]        *)
(*        | [k |-> "exc", t |-> type, bad |-> 0/1 unsupported-element error]]*)
(***************************************************************************)
EXTENDS PicoGrammar, Json, IOUtils, TLC

Cases == ndJsonDeserialize(IOEnv.TRACES)

VARIABLES blk, tid, verdict

One(S) == CHOOSE x \in S : TRUE

(* C07 as a behaviour: Convert events pass = 1, 2, 3 carrying the content hash; the      *)
(* action property "after the first pass every conversion stutters" is evaluated on it.   *)
RECURSIVE Fixpoint(_, _)
Fixpoint(h, i) == IF i >= Len(h) THEN "ok"
                  ELSE IF h[i + 1] = "exc" THEN "pass" \o ToString(i + 1) \o "-raised"
                  ELSE IF h[i + 1] # h[i] THEN "pass" \o ToString(i + 1) \o "-differs"
                  ELSE Fixpoint(h, i + 1)

Judge(c) ==
  IF c.r.k = "exc"
  THEN (IF c.prop = "C01" /\ c.dr = 1 /\ c.r.bad = 1 THEN "BAD:DropUnsupportedNeverFailsOnElements"
        ELSE "ok:exception")
  ELSE CASE c.prop = "C01" ->
              LET v == Violations(c.r.out, c.nd, c.at = 1)
              IN IF v = {} THEN "ok:pico" ELSE "BAD:" \o One(v)
         [] c.prop = "C08" ->
              LET v == RefViolations(c.r.out)
              IN IF v = {} THEN (IF c.r.nrefs > 0 THEN "ok:refs" ELSE "ok:norefs") ELSE "BAD:" \o One(v)
         [] c.prop = "C07" ->
              LET f == Fixpoint(c.r.h, 1)
              IN IF f # "ok" THEN "BAD:" \o f
                 ELSE IF c.r.self # 0 THEN "BAD:self-check-reports-violations"
                 ELSE "ok:fixpoint"

NCases == Len(Cases)
NBlk == 64
Init == blk \in 1..NBlk /\ tid = 0 /\ verdict = "block"
Fan == /\ verdict = "block"
       /\ \E t \in 1..NCases : t % NBlk = blk - 1 /\ tid' = t
       /\ verdict' = "pending" /\ UNCHANGED blk
Do == /\ verdict = "pending"
      /\ verdict' = Judge(Cases[tid])
      /\ PrintT("V " \o ToString(tid) \o " " \o verdict')
      /\ UNCHANGED <<tid, blk>>
Next == Fan \/ Do
Spec == Init /\ [][Next]_<<blk, tid, verdict>>
=============================================================================
