----------------------------- MODULE TracePrune -----------------------------
(***************************************************************************)
(* L3 trace spec for C18.  Traces:                                          *)
(*  kind "shape": one shape (tag, geometry, attributes incl. style) and the *)
(*      answer of the real might_paint();                                    *)
(*  kind "doc":   a document of several such shapes and which of them       *)
(*      remove_unpainted_shapes() removed, plus whether the rest of the      *)
(*      document is unchanged;                                               *)
(*  kind "subpaths": a path with its paint attributes and which subpaths     *)
(*      remove_empty_subpaths() kept.                                        *)
(* Paints(shape) is three-valued: "no" (provably paints nothing), "yes"      *)
(* (a visible stroke on a segment of positive length, or a visible fill with *)
(* a robust interior witness point under its fill rule), "unknown".          *)
(* Clause (conservativeness): whatever is reported unpaintable / removed     *)
(* has Paints # "yes".                                                        *)
(***************************************************************************)
EXTENDS SvgSem, Json, IOUtils, TLC

Cases == ndJsonDeserialize(IOEnv.TRACES)
VARIABLES blk, tid, verdict

Pts(pl) == [k \in 1..(Len(pl) \div 2) |-> <<pl[2 * k - 1], pl[2 * k]>>]

(* contours (point lists, user units x S) and closedness of a shape *)
ShapeContours(tag, g) ==
  CASE tag = "rect"    -> IF g[3] = 0 /\ g[4] = 0 THEN << <<g[1], g[2]>> >>
                          ELSE << <<g[1], g[2], g[1] + g[3], g[2], g[1] + g[3], g[2] + g[4], g[1], g[2] + g[4]>> >>
    [] tag = "line"    -> << <<g[1], g[2], g[3], g[4]>> >>
    [] tag \in {"polygon", "polyline"} -> << g >>
    [] tag = "path"    -> Contours(g)
    [] OTHER -> <<>>

HasSegment(tag, g) ==
  IF tag \in {"circle"} THEN g[3] > 0
  ELSE IF tag = "ellipse" THEN g[3] > 0 /\ g[4] > 0
  ELSE \E c \in 1..Len(ShapeContours(tag, g)) :
         LET pl == ShapeContours(tag, g)[c]
         IN \E k \in 1..(Len(pl) \div 2 - 1) : <<pl[2 * k - 1], pl[2 * k]>> # <<pl[2 * k + 1], pl[2 * k + 2]>>

(* robust interior witness on the quarter-unit lattice of the box *)
FillWitness(tag, g, rule, box) ==
  \E p \in { <<2 * i + 1, 2 * j + 1>> : i \in (4 * box[1])..(4 * box[3] - 1), j \in (4 * box[2])..(4 * box[4] - 1) } :
     \A q \in Nbrs(p) : InShape(tag, g, <<q[1], q[2], 8>>, rule)

(* provably no area: every contour's points are collinear / zero size *)
Collinear(pl) == \A i, j, k \in 1..(Len(pl) \div 2) :
                   (pl[2*j-1] - pl[2*i-1]) * (pl[2*k] - pl[2*i]) = (pl[2*j] - pl[2*i]) * (pl[2*k-1] - pl[2*i-1])
NoArea(tag, g) ==
  CASE tag = "rect" -> g[3] <= 0 \/ g[4] <= 0
    [] tag = "circle" -> g[3] <= 0
    [] tag = "ellipse" -> g[3] <= 0 \/ g[4] <= 0
    [] tag = "line" -> TRUE
    [] OTHER -> \A c \in 1..Len(ShapeContours(tag, g)) : Collinear(ShapeContours(tag, g)[c])

Paints(tag, g, at, box) ==
  LET ctx == Inherit(DefaultCtx, at)
      eo  == OpacityE(at)
      fillVis   == ctx.fill # "none" /\ ctx.fo # -1 /\ eo # -1
      strokeVis == ctx.stroke # "none" /\ ctx.so # -1 /\ eo # -1 /\ ctx.sw # 0
  IN IF Hidden(at) THEN "no"
     ELSE IF ~fillVis /\ ~strokeVis THEN "no"
     ELSE IF strokeVis /\ HasSegment(tag, g) THEN "yes"
     ELSE IF fillVis /\ FillWitness(tag, g, ctx.rule, box) THEN "yes"
     ELSE IF ~strokeVis /\ NoArea(tag, g) THEN "no"
     ELSE "unknown"

JudgeShape(c) ==
  IF c.mp = -1 THEN "ok:exception"
  ELSE LET pt == Paints(c.tag, c.g, c.at, c.box)
       IN IF c.mp = 0 /\ pt = "yes" THEN "BAD:reported-unpaintable-but-paints"
          ELSE IF c.mp = 0 THEN "ok:unpaintable-" \o pt
          ELSE "ok:might-paint-" \o pt

(* c.shapes: Seq([tag, g, at]), c.removed: Seq(0/1), c.rest: 1 iff nothing else changed *)
JudgeDoc(c) ==
  IF c.rest = -1 THEN "ok:exception"
  ELSE IF \E i \in 1..Len(c.shapes) : c.removed[i] = 1
            /\ Paints(c.shapes[i].tag, c.shapes[i].g, c.shapes[i].at, c.box) = "yes"
       THEN "BAD:removed-a-painting-shape"
  ELSE IF c.rest = 0 THEN "BAD:removal-changed-other-content"
  ELSE "ok:removal-conservative"

(* c.subs: Seq(contour cmds as path geometry), c.kept: Seq(0/1), paint attributes c.at *)
JudgeSubpaths(c) ==
  IF c.rest = -1 THEN "ok:exception"
  ELSE IF \E i \in 1..Len(c.subs) : c.kept[i] = 0 /\ Paints("path", c.subs[i], c.at, c.box) = "yes"
       THEN "BAD:removed-a-painting-subpath"
  ELSE IF c.rest = 0 THEN "BAD:kept-subpaths-changed"
  ELSE "ok:subpaths-conservative"

Judge(c) == CASE c.kind = "shape" -> JudgeShape(c)
              [] c.kind = "doc" -> JudgeDoc(c)
              [] c.kind = "subpaths" -> JudgeSubpaths(c)

NCases == Len(Cases)
NBlk == 64
Init == blk \in 1..NBlk /\ tid = 0 /\ verdict = "block"
Fan == /\ verdict = "block"
       /\ \E t \in 1..NCases : t % NBlk = blk - 1 /\ tid' = t
       /\ verdict' = "pending" /\ UNCHANGED blk
Do == /\ verdict = "pending"
      /\ verdict' = Judge(Cases[tid])
      /\ PrintT("V " \o ToString(tid) \o " " \o verdict')
      /\ UNCHANGED <<tid, blk>>
Next == Fan \/ Do
Spec == Init /\ [][Next]_<<blk, tid, verdict>>
=============================================================================
