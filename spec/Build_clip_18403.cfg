SPECIFICATION Spec
CONSTANTS
  Focus = "clip"
  MaxNodes = 8
  MaxDepth = 4
INVARIANT WellFormed
CHECK_DEADLOCK FALSE
