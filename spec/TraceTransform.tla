--------------------------- MODULE TraceTransform ---------------------------
(***************************************************************************)
(* L3 trace spec for C11.  Traces (all matrices as <<a,b,c,d,e,f,k>> with   *)
(* integer entries over denominator k; "impl" values are the real results   *)
(* scaled by the driver):                                                    *)
(*  "parse"  s (characters), r = Affine2D.fromstring(s) x100 | exception     *)
(*  "mul"    m, n integer matrices, r = (m @ n)                               *)
(*  "ltr"    ms, r = compose_ltr(ms), p, q = r.map_point(p)                   *)
(*  "inv"    m, r = m.inverse() x det(m)   (adjugate)                         *)
(*  "r2r"    src, dst rects, align, slice(0/1/2 = omitted), r x1000           *)
(*  "dec"    m, a, b  (parts of decompose_scale / decompose_translation x1000)*)
(*  "rt"     m, s = characters of m.tostring(), r = fromstring(tostring) x1000 *)
(***************************************************************************)
EXTENDS TransformGrammar, Json, IOUtils, TLC

Cases == ndJsonDeserialize(IOEnv.TRACES)
VARIABLES blk, tid, verdict

(* impl (x scale, integers) agrees with exact matrix m within tol (in 1/scale units) *)
Close(impl, m, scale, tol) ==
  \A i \in 1..6 : Abs(impl[i] * m[7] - m[i] * scale) <= tol * m[7]

MapPt(m, p) == <<m[1] * p[1] + m[3] * p[2] + m[5], m[2] * p[1] + m[4] * p[2] + m[6], m[7]>>

RECURSIVE Ltr(_, _)
(* left-to-right composition: the FIRST matrix is applied to the point first *)
Ltr(ms, i) == IF i > Len(ms) THEN Id ELSE Mul(Ltr(ms, i + 1), ms[i])

JudgeParse(c) ==
  LET p == ParseTf(c.s)
  IN IF ~p.ok THEN (IF c.r.k = "exc" /\ c.r.t # "ValueError" THEN "ok:nonconforming-other-exception"
                    ELSE "ok:nonconforming")
     ELSE IF ~ExactOps(p.ops) THEN "ok:conforming-not-exact"
     ELSE IF c.r.k # "ok" THEN "BAD:parse:conforming-list-rejected:" \o c.r.t
     ELSE IF Close(c.r.m, Sem(p.ops, 1), 100, 1) THEN "ok:parse" ELSE "BAD:parse:wrong-matrix"

JudgeR2R(c) ==
  IF c.r.k # "ok" THEN "ok:exception"
  ELSE LET align == IF c.align = "" THEN "none" ELSE c.align
           m == ViewportXf(c.src, c.dst, align, c.slice = 1)
       IN IF Close(c.r.m, m, 1000, 2) THEN "ok:r2r" ELSE "BAD:r2r:wrong-matrix"

Judge(c) ==
  CASE c.kind = "parse" -> JudgeParse(c)
    [] c.kind = "mul" -> IF c.r = Mul(c.m, c.n) THEN "ok:mul" ELSE "BAD:mul"
    [] c.kind = "ltr" -> IF c.r # Ltr(c.ms, 1) THEN "BAD:compose_ltr"
                         ELSE IF c.q # MapPt(Ltr(c.ms, 1), c.p) THEN "BAD:map_point" ELSE "ok:ltr"
    [] c.kind = "inv" -> IF c.det = 0 THEN "ok:degenerate"
                         ELSE IF Mul(c.m, <<c.r[1], c.r[2], c.r[3], c.r[4], c.r[5], c.r[6], Abs(c.det)>>)
                                 = Id
                              THEN "ok:inv" ELSE "BAD:inverse"
    [] c.kind = "r2r" -> JudgeR2R(c)
    [] c.kind = "dec" -> IF c.a = <<>> THEN "ok:exception"
                         ELSE LET prod == Mul(<<c.b[1], c.b[2], c.b[3], c.b[4], c.b[5], c.b[6], 1000>>,
                                              <<c.a[1], c.a[2], c.a[3], c.a[4], c.a[5], c.a[6], 1000>>)
                              IN IF \A i \in 1..6 : Abs(prod[i] * c.m[7] - c.m[i] * prod[7]) * 50 <= prod[7] * c.m[7]
                                 THEN "ok:dec" ELSE "BAD:decomposition-does-not-recompose"
    [] c.kind = "rt" -> LET p == ParseTf(c.s)
                        IN IF ~p.ok THEN "BAD:tostring-nonconforming"
                           ELSE IF c.r.k # "ok" THEN "BAD:roundtrip-rejected"
                           ELSE IF Close(c.r.m, c.m, 1000, 1) THEN "ok:roundtrip" ELSE "BAD:roundtrip-differs"

NCases == Len(Cases)
NBlk == 64
Init == blk \in 1..NBlk /\ tid = 0 /\ verdict = "block"
Fan == /\ verdict = "block"
       /\ \E t \in 1..NCases : t % NBlk = blk - 1 /\ tid' = t
       /\ verdict' = "pending" /\ UNCHANGED blk
Do == /\ verdict = "pending"
      /\ verdict' = Judge(Cases[tid])
      /\ PrintT("V " \o ToString(tid) \o " " \o verdict')
      /\ UNCHANGED <<tid, blk>>
Next == Fan \/ Do
Spec == Init /\ [][Next]_<<blk, tid, verdict>>
=============================================================================
