SPECIFICATION Spec
CONSTANTS
  Focus = "struct"
  MaxNodes = 6
  MaxDepth = 4
INVARIANT WellFormed
CHECK_DEADLOCK FALSE
