------------------------------- MODULE TraceArc -------------------------------
(***************************************************************************)
(* L1 + L3 for C12: elliptical arcs with rational data.                     *)
(* The generator picks start s and end e as INTEGER points of a circle of   *)
(* radius r about O (Pythagorean points), optionally stretches the plane    *)
(* by integer axis factors, rotates by a multiple of 90 degrees or by the   *)
(* 3-4-5 angle and scales by a power of ten; the real arc_to_cubic runs on  *)
(* the transformed arc and the driver maps every cubic back into the circle *)
(* frame and logs, in units of r/RR (the circle has radius RR):             *)
(*   segs |-> Seq([pts |-> 17 points B(k/16), k = 0..16, flat <<x,y,...>>])  *)
(* The spec characterises the answer without trigonometry:                   *)
(*   the centre used is O when the positive-direction extent from s to e     *)
(*   about O agrees with the flags, otherwise its mirror image s + e - O;    *)
(*   the extent class follows from the signs of cross and dot products.      *)
(***************************************************************************)
EXTENDS Naturals, Integers, Sequences, Json, IOUtils, TLC

Cases == ndJsonDeserialize(IOEnv.TRACES)
VARIABLES blk, tid, verdict

Abs(x) == IF x < 0 THEN -x ELSE x
Cross(a, b) == a[1] * b[2] - a[2] * b[1]
Dot(a, b) == a[1] * b[1] + a[2] * b[2]

(* c.s, c.e, c.o: start, end, centre O in circle-frame lattice units; c.large, c.sweep *)
SO(c) == <<c.s[1] - c.o[1], c.s[2] - c.o[2]>>
EO(c) == <<c.e[1] - c.o[1], c.e[2] - c.o[2]>>
(* positive-direction (increasing angle, y down) extent theta from s to e about O:        *)
(*   cross > 0 : theta < 180,  cross = 0 : theta = 180,  cross < 0 : theta > 180           *)
ThetaGT180(c) == Cross(SO(c), EO(c)) < 0
ThetaEQ180(c) == Cross(SO(c), EO(c)) = 0
(* does the arc selected by the flags use centre O (TRUE) or the mirrored centre? *)
UsesO(c) == IF ThetaEQ180(c) THEN TRUE
            ELSE IF c.sweep = 1 THEN ThetaGT180(c) = (c.large = 1)
            ELSE (~ThetaGT180(c)) = (c.large = 1)
(* ceil(extent / 90 degrees) of the selected arc, exactly, from the radii s-C and e-C (the angle *)
(* alpha between them is the same about O and about the mirrored centre):                      *)
(*   extent = alpha when large = 0 (or alpha = 180), 360 - alpha when large = 1                *)
MaxSegs(c) ==
  LET cr == Cross(SO(c), EO(c))  dt == Dot(SO(c), EO(c))
  IN IF cr = 0 THEN 2
     ELSE IF c.large = 0 THEN (IF dt >= 0 THEN 1 ELSE 2)
     ELSE (IF dt <= 0 THEN 3 ELSE 4)

(* centre used, in the logged units (RR per radius) *)
CU(c) == IF UsesO(c) THEN <<0, 0>> ELSE <<(c.s[1] + c.e[1] - 2 * c.o[1]), (c.s[2] + c.e[2] - 2 * c.o[2])>>

Pt(seg, k) == <<seg.pts[2 * k + 1], seg.pts[2 * k + 2]>>      \* k = 0..16

(* radius check of a logged point p (units: circle radius = RR, centre offset cu in lattice  *)
(* units of r = c.r): | |p - C| - RR | <= tol                                                *)
OnCircle(p, c, tol) ==
  LET cx == (CU(c)[1] * c.RR) \div c.r   cy == (CU(c)[2] * c.RR) \div c.r
      dx == p[1] - cx  dy == p[2] - cy
      d2 == dx * dx + dy * dy
  IN (c.RR - tol) * (c.RR - tol) <= d2 /\ d2 <= (c.RR + tol) * (c.RR + tol)

Rel(p, c) == <<p[1] - (CU(c)[1] * c.RR) \div c.r, p[2] - (CU(c)[2] * c.RR) \div c.r>>

Judge(c) ==
  IF c.k = "exc" THEN "BAD:exception:" \o c.t
  ELSE IF c.class = "coincident" THEN (IF Len(c.segs) = 0 /\ c.line = 0 THEN "ok:coincident-nothing" ELSE "BAD:coincident-endpoints-gave-segments")
  ELSE IF c.class = "zeroradius" THEN (IF c.line = 1 /\ c.endexact = 1 THEN "ok:zero-radius-line" ELSE "BAD:zero-radius-not-a-line")
  \* end points that differ, however little, are joined by something that ends exactly at the end
  ELSE IF c.class = "tiny" THEN (IF Len(c.segs) = 0 /\ c.line = 0 THEN "BAD:distinct-endpoints-gave-nothing"
                                 ELSE IF c.endexact # 1 THEN "BAD:does-not-end-exactly-at-end" ELSE "ok:tiny-arc")
  ELSE IF Len(c.segs) = 0 \/ c.line = 1 THEN "BAD:no-cubics"
  ELSE IF c.endexact # 1 THEN "BAD:does-not-end-exactly-at-end"
  ELSE IF c.startok # 1 THEN "BAD:does-not-start-at-start"
  ELSE IF \E i \in 1..Len(c.segs) : \E k \in 0..16 : ~OnCircle(Pt(c.segs[i], k), c, c.tol)
       THEN "BAD:deviates-from-ellipse"
  ELSE IF \E i \in 1..Len(c.segs) : \E k \in 0..15 :
            LET a == Rel(Pt(c.segs[i], k), c)  b == Rel(Pt(c.segs[i], k + 1), c)
            IN (IF c.sweep = 1 THEN Cross(a, b) <= 0 ELSE Cross(a, b) >= 0)
       THEN "BAD:wrong-direction"
  \* monotone samples on the right circle from s to e with at most ceil(extent/90) segments of 16
  \* small steps each cannot wrap around: the swept extent is the one the flags select
  ELSE IF Len(c.segs) > MaxSegs(c) THEN "BAD:segment-count"
  ELSE "ok:arc"

NCases == Len(Cases)
NBlk == 64
Init == blk \in 1..NBlk /\ tid = 0 /\ verdict = "block"
Fan == /\ verdict = "block"
       /\ \E t \in 1..NCases : t % NBlk = blk - 1 /\ tid' = t
       /\ verdict' = "pending" /\ UNCHANGED blk
Do == /\ verdict = "pending"
      /\ verdict' = Judge(Cases[tid])
      /\ PrintT("V " \o ToString(tid) \o " " \o verdict')
      /\ UNCHANGED <<tid, blk>>
Next == Fan \/ Do
Spec == Init /\ [][Next]_<<blk, tid, verdict>>
=============================================================================
