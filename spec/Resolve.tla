------------------------------- MODULE Resolve -------------------------------
(***************************************************************************)
(* L2 model of use resolution (SVG._resolve_use) on the reference graph.   *)
(* The document is abstracted to: for every id'd element x (and the body,  *)
(* x = 0) the bag uses[x] of <use> elements inside it, by target id.        *)
(* One round of the while-loop replaces EVERY use by a copy of its target's *)
(* pre-round content, so  uses'[x][j] = SUM_r uses[x][r] * uses[r][j]        *)
(* (a matrix product); the loop ends when no use is left.  With an acyclic   *)
(* graph this takes at most depth+1 rounds; with a cycle the loop never      *)
(* ends (and grows).  Guard = TRUE models the cycle check that raises.       *)
(***************************************************************************)
EXTENDS Naturals, FiniteSets, Sequences, TLC, Json

CONSTANTS N,        \* ids are 1..N, the body is 0
          Guard,    \* cycle check present?
          MaxSize   \* size bound beyond which growth counts as "unbounded"

Ids == 1..N
Nodes == 0..N

VARIABLES uses, pc, rounds
vars == <<uses, pc, rounds>>

RECURSIVE SumOver(_, _, _)
SumOver(f(_), S, acc) == IF S = {} THEN acc
                         ELSE LET x == CHOOSE x \in S : TRUE IN SumOver(f, S \ {x}, acc + f(x))

Total(u) == LET row(x) == LET cell(j) == u[x][j] IN SumOver(cell, Ids, 0) IN SumOver(row, Nodes, 0)

(* is there a cycle among ids reachable from the body? *)
Edge(u, a, b) == u[a][b] > 0
RECURSIVE Reach(_, _, _)
Reach(u, S, k) == IF k = 0 THEN S
                  ELSE Reach(u, S \cup {b \in Ids : \E a \in S : Edge(u, a, b)}, k - 1)
Cyclic(u) == \E a \in Ids : a \in Reach(u, {b \in Ids : Edge(u, a, b)}, N)
              /\ a \in Reach(u, {b \in Ids : \E x \in Nodes : Edge(u, x, b)}, N)

(* every graph with at most one use per (container, target) pair *)
Init == /\ uses \in [Nodes -> [Ids -> {0, 1}]]
        /\ pc = "start" /\ rounds = 0

Check == /\ pc = "start"
         /\ pc' = IF Guard /\ Cyclic(uses) THEN "error" ELSE "loop"
         /\ UNCHANGED <<uses, rounds>>

Round == /\ pc = "loop"
         /\ rounds' = rounds + 1
         /\ IF Total(uses) = 0
            THEN pc' = "done" /\ UNCHANGED uses
            ELSE /\ uses' = [x \in Nodes |-> [j \in Ids |->
                               LET term(r) == uses[x][r] * uses[r][j] IN SumOver(term, Ids, 0)]]
                 /\ pc' = IF Total(uses') > MaxSize THEN "unbounded" ELSE "loop"

Next == Check \/ Round
Spec == Init /\ [][Next]_vars /\ WF_vars(Next)

(* C17 on the model *)
NeverUnbounded == pc # "unbounded"
RoundsBounded == rounds <= N + 1
Terminates == <>(pc \in {"done", "error", "unbounded"})
CyclicIsError == [](pc = "done" => TRUE)
=============================================================================
