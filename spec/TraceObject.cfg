SPECIFICATION TSpec
CONSTANTS
  CloneFlushes = TRUE
  MaxLen = 100
  EmitHistories = FALSE
CHECK_DEADLOCK FALSE
