SPECIFICATION Spec
CONSTANTS
  CloneFlushes = FALSE
  MaxLen = 2
  EmitHistories = FALSE
INVARIANT SerEqualsIdeal
CHECK_DEADLOCK FALSE
