----------------------------- MODULE PathSem -----------------------------
(***************************************************************************)
(* L1 reference semantics of SVG path data (SVG 1.1 section 8.3) on exact  *)
(* integer coordinates (the driver scales every number by a fixed power of  *)
(* ten, so all arithmetic below is integer arithmetic).                     *)
(*                                                                          *)
(* A command is <<letter, <<args>>>> (exploded: one argument group).        *)
(* Denote(cmds) is the sequence of subpaths                                 *)
(*    [s |-> start point, closed |-> BOOLEAN, segs |-> <<segment...>>]       *)
(* and a segment is <<kind, p...>> in ABSOLUTE coordinates:                  *)
(*    <<"L", x, y>>  <<"C", x1, y1, x2, y2, x, y>>  <<"Q", x1, y1, x, y>>    *)
(*    <<"A", rx, ry, rot, large, sweep, x, y>>                               *)
(* This is what "the curve a path describes" means in properties C09, C18,  *)
(* C20: two command sequences describe the same curve iff Denote is equal.  *)
(***************************************************************************)
EXTENDS Naturals, Integers, Sequences

Upper(c) == CASE c = "m" -> "M" [] c = "z" -> "Z" [] c = "l" -> "L" [] c = "h" -> "H"
              [] c = "v" -> "V" [] c = "c" -> "C" [] c = "s" -> "S" [] c = "q" -> "Q"
              [] c = "t" -> "T" [] c = "a" -> "A" [] OTHER -> c
IsRel(c) == c \in {"m","z","l","h","v","c","s","q","t","a"}

(* interpreter state *)
InitSt == [cur |-> <<0, 0>>, start |-> <<0, 0>>, ctl |-> <<0, 0>>, fam |-> "none",
           subs |-> <<>>, open |-> FALSE]

(* append a segment to the current subpath; if none is open (after Z, or a    *)
(* drawing command before any moveto) a new subpath starts at st.start       *)
AddSeg(st, seg) ==
  IF st.open
  THEN LET n == Len(st.subs)
       IN [st.subs EXCEPT ![n].segs = Append(@, seg)]
  ELSE Append(st.subs, [s |-> st.start, closed |-> FALSE, segs |-> <<seg>>])

Step(st, cmd) ==
  LET c == Upper(cmd[1])
      a == cmd[2]
      ox == IF IsRel(cmd[1]) THEN st.cur[1] ELSE 0
      oy == IF IsRel(cmd[1]) THEN st.cur[2] ELSE 0
      X(i) == a[i] + ox
      Y(i) == a[i] + oy
  IN CASE c = "M" ->
            LET p == <<X(1), Y(2)>>
            IN [st EXCEPT !.cur = p, !.start = p, !.fam = "none", !.open = TRUE,
                          !.subs = Append(st.subs, [s |-> p, closed |-> FALSE, segs |-> <<>>])]
       [] c = "Z" ->
            LET subs2 == IF st.open
                         THEN [st.subs EXCEPT ![Len(st.subs)].closed = TRUE]
                         ELSE Append(st.subs, [s |-> st.start, closed |-> TRUE, segs |-> <<>>])
            IN [st EXCEPT !.cur = st.start, !.fam = "none", !.open = FALSE, !.subs = subs2]
       [] c = "L" ->
            [st EXCEPT !.cur = <<X(1), Y(2)>>, !.fam = "none", !.open = TRUE,
                       !.subs = AddSeg(st, <<"L", X(1), Y(2)>>)]
       [] c = "H" ->
            [st EXCEPT !.cur = <<X(1), st.cur[2]>>, !.fam = "none", !.open = TRUE,
                       !.subs = AddSeg(st, <<"L", X(1), st.cur[2]>>)]
       [] c = "V" ->
            [st EXCEPT !.cur = <<st.cur[1], Y(1)>>, !.fam = "none", !.open = TRUE,
                       !.subs = AddSeg(st, <<"L", st.cur[1], Y(1)>>)]
       [] c = "C" ->
            [st EXCEPT !.cur = <<X(5), Y(6)>>, !.ctl = <<X(3), Y(4)>>, !.fam = "cubic",
                       !.open = TRUE,
                       !.subs = AddSeg(st, <<"C", X(1), Y(2), X(3), Y(4), X(5), Y(6)>>)]
       [] c = "S" ->
            LET c1 == IF st.fam = "cubic"
                      THEN <<2 * st.cur[1] - st.ctl[1], 2 * st.cur[2] - st.ctl[2]>>
                      ELSE st.cur
            IN [st EXCEPT !.cur = <<X(3), Y(4)>>, !.ctl = <<X(1), Y(2)>>, !.fam = "cubic",
                          !.open = TRUE,
                          !.subs = AddSeg(st, <<"C", c1[1], c1[2], X(1), Y(2), X(3), Y(4)>>)]
       [] c = "Q" ->
            [st EXCEPT !.cur = <<X(3), Y(4)>>, !.ctl = <<X(1), Y(2)>>, !.fam = "quad",
                       !.open = TRUE,
                       !.subs = AddSeg(st, <<"Q", X(1), Y(2), X(3), Y(4)>>)]
       [] c = "T" ->
            LET c1 == IF st.fam = "quad"
                      THEN <<2 * st.cur[1] - st.ctl[1], 2 * st.cur[2] - st.ctl[2]>>
                      ELSE st.cur
            IN [st EXCEPT !.cur = <<X(1), Y(2)>>, !.ctl = c1, !.fam = "quad", !.open = TRUE,
                          !.subs = AddSeg(st, <<"Q", c1[1], c1[2], X(1), Y(2)>>)]
       [] c = "A" /\ <<X(6), Y(7)>> = st.cur ->
            \* SVG 1.1 F.6.2: identical endpoints = the arc segment is omitted entirely
            [st EXCEPT !.fam = "none"]
       [] c = "A" ->
            [st EXCEPT !.cur = <<X(6), Y(7)>>, !.fam = "none", !.open = TRUE,
                       !.subs = AddSeg(st, <<"A", a[1], a[2], a[3], a[4], a[5], X(6), Y(7)>>)]

RECURSIVE Run(_, _, _)
Run(st, cmds, i) == IF i > Len(cmds) THEN st ELSE Run(Step(st, cmds[i]), cmds, i + 1)

Denote(cmds) == Run(InitSt, cmds, 1).subs

(* A lone moveto (no segment, not closed) draws nothing, not even stroke caps; *)
(* the curve a path describes is its denotation without such subpaths.        *)
Sig(subs) == SelectSeq(subs, LAMBDA sp : sp.closed \/ sp.segs # <<>>)
Curve(cmds) == Sig(Denote(cmds))

(* ---- target forms ---- *)
Letters(cmds) == {cmds[i][1] : i \in 1..Len(cmds)}
IsAbsolute(cmds)  == \A c \in Letters(cmds) : ~IsRel(c) \/ c = "z"
IsRelative(cmds)  == \A i \in 1..Len(cmds) : IsRel(cmds[i][1]) \/ (i = 1 /\ cmds[i][1] = "M")
                                             \/ cmds[i][1] = "Z"
NoHV(cmds)        == Letters(cmds) \cap {"H","h","V","v"} = {}
NoShorthand(cmds) == Letters(cmds) \cap {"S","s","T","t"} = {}
NoArc(cmds)       == Letters(cmds) \cap {"A","a"} = {}
NormalForm(cmds)  == Letters(cmds) \subseteq {"M","L","C","Q","Z"}
AbsoluteMoveto(cmds) == "m" \notin Letters(cmds)

(* ---- geometry helpers on denotations ---- *)
SegEnd(seg) == <<seg[Len(seg) - 1], seg[Len(seg)]>>

ShiftSeg(seg, dx, dy) ==
  CASE seg[1] = "L" -> <<"L", seg[2] + dx, seg[3] + dy>>
    [] seg[1] = "C" -> <<"C", seg[2] + dx, seg[3] + dy, seg[4] + dx, seg[5] + dy, seg[6] + dx, seg[7] + dy>>
    [] seg[1] = "Q" -> <<"Q", seg[2] + dx, seg[3] + dy, seg[4] + dx, seg[5] + dy>>
    [] seg[1] = "A" -> <<"A", seg[2], seg[3], seg[4], seg[5], seg[6], seg[7] + dx, seg[8] + dy>>

Shift(subs, dx, dy) ==
  [i \in 1..Len(subs) |->
     [s |-> <<subs[i].s[1] + dx, subs[i].s[2] + dy>>, closed |-> subs[i].closed,
      segs |-> [k \in 1..Len(subs[i].segs) |-> ShiftSeg(subs[i].segs[k], dx, dy)]]]

(* Arc abstraction used to judge arcs-to-cubics structurally: every non-arc  *)
(* segment must be reproduced exactly and in order; an arc from p to e must  *)
(* be replaced by nothing (p = e), one line to e (a zero radius), or 1..4     *)
(* cubics of which the last (and only the last) ends exactly at e.            *)
RECURSIVE MatchArcs(_, _, _, _, _)
MatchArcs(isegs, i, osegs, o, cur) ==
  IF i > Len(isegs) THEN o > Len(osegs)
  ELSE LET sg == isegs[i]
       IN IF sg[1] # "A"
          THEN o <= Len(osegs) /\ osegs[o] = sg
               /\ MatchArcs(isegs, i + 1, osegs, o + 1, SegEnd(sg))
          ELSE LET e == SegEnd(sg)
               IN IF e = cur THEN MatchArcs(isegs, i + 1, osegs, o, cur)
                  ELSE IF sg[2] = 0 \/ sg[3] = 0
                  THEN o <= Len(osegs) /\ osegs[o] = <<"L", e[1], e[2]>>
                       /\ MatchArcs(isegs, i + 1, osegs, o + 1, e)
                  ELSE \E n \in 1..4 :
                         /\ o + n - 1 <= Len(osegs)
                         /\ \A k \in 0..(n - 1) : osegs[o + k][1] = "C"
                         /\ \A k \in 0..(n - 2) : SegEnd(osegs[o + k]) # e
                         /\ SegEnd(osegs[o + n - 1]) = e
                         /\ MatchArcs(isegs, i + 1, osegs, o + n, e)

SameUpToArcs(isubs, osubs) ==
  /\ Len(isubs) = Len(osubs)
  /\ \A i \in 1..Len(isubs) :
       /\ isubs[i].s = osubs[i].s
       /\ isubs[i].closed = osubs[i].closed
       /\ MatchArcs(isubs[i].segs, 1, osubs[i].segs, 1, isubs[i].s)
==========================================================================
