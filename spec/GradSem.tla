------------------------------- MODULE GradSem -------------------------------
(***************************************************************************)
(* L1: gradient paint servers (SVG 1.1 chapter 13.2) on the exact domain.  *)
(*  - template (href) resolution: attributes and stops are inherited only   *)
(*    when absent, through chains;                                           *)
(*  - the gradient parameter t at a point p of a shape filled with it:       *)
(*      G = CTM . [bbox -> unit square if objectBoundingBox] . gradientTransform *)
(*      q = G^-1 p ;  linear: t = (q - p1).(p2 - p1) / |p2 - p1|^2            *)
(*                    radial (focal point = centre, fr = 0): t^2 = |q - c|^2 / r^2 *)
(*    evaluated as floor(256 t) resp. floor(256 t^2) on coordinates reduced   *)
(*    to about 1/512 of a unit (sample points are robustly interior, the      *)
(*    comparison tolerance is 4/256).                                         *)
(***************************************************************************)
EXTENDS SvgSem, TLC

GradTags == {"linearGradient", "radialGradient"}

RECURSIVE GradAttrs(_, _, _)
GradAttrs(doc, gi, fuel) ==
  LET nd == doc.nodes[gi]
      ti == IF nd.ref = "" THEN 0 ELSE ById(doc, nd.ref)
  IN IF ti = 0 \/ fuel = 0 THEN [at |-> nd.at, stops |-> nd.g]
     ELSE IF doc.nodes[ti].tag \notin GradTags THEN [at |-> nd.at, stops |-> nd.g]
     ELSE LET t == GradAttrs(doc, ti, fuel - 1)
              valid == IF nd.tag = "linearGradient"
                       THEN {"x1", "y1", "x2", "y2", "gradientUnits", "gradientTransform", "spreadMethod"}
                       ELSE {"cx", "cy", "r", "fx", "fy", "fr", "gradientUnits", "gradientTransform", "spreadMethod"}
              inh == SelectSeq(t.at, LAMBDA a : a[1] \in valid /\ ~Has(nd.at, a[1]))
          IN [at |-> nd.at \o inh, stops |-> IF nd.g = <<>> THEN t.stops ELSE nd.g]

(* <<n, d, pct>> -> rational <<num, den>> *)
RedQ(n, d) == LET g == Gcd(n, d) IN IF g <= 1 THEN <<n, d>> ELSE <<n \div g, d \div g>>
Val(v) == IF v[3] = 1 THEN RedQ(v[1], 100 * v[2]) ELSE RedQ(v[1], v[2])
Lcm(a, b) == (a \div Gcd(a, b)) * b

RECURSIVE StopsSig(_, _)
StopsSig(st, i) == IF i > Len(st) THEN ""
                   ELSE ToString(st[i][1]) \o "=" \o st[i][2] \o (IF i < Len(st) THEN "," ELSE "") \o StopsSig(st, i + 1)

(* bounding box <<x, y, w, h>> of a catalogue shape in its own coordinates *)
RECURSIVE MinMaxK(_, _, _, _)
MinMaxK(pts, i, k, acc) == IF i > Len(pts) \div 2 THEN acc
                           ELSE LET v == pts[2 * (i - 1) + k]
                                IN MinMaxK(pts, i + 1, k, <<IF v < acc[1] THEN v ELSE acc[1], IF v > acc[2] THEN v ELSE acc[2]>>)
RECURSIVE CatAll(_, _, _)
CatAll(cs, i, acc) == IF i > Len(cs) THEN acc ELSE CatAll(cs, i + 1, acc \o cs[i])
BBoxPts(pts) == LET mx == MinMaxK(pts, 1, 1, <<pts[1], pts[1]>>)  my == MinMaxK(pts, 1, 2, <<pts[2], pts[2]>>)
                IN <<mx[1], my[1], mx[2] - mx[1], my[2] - my[1]>>
BBox(tag, g) == CASE tag = "rect" -> <<g[1], g[2], g[3], g[4]>>
                  [] tag = "circle" -> <<g[1] - g[3], g[2] - g[3], 2 * g[3], 2 * g[3]>>
                  [] tag = "ellipse" -> <<g[1] - g[3], g[2] - g[4], 2 * g[3], 2 * g[4]>>
                  [] tag \in {"polygon", "polyline"} -> BBoxPts(g)
                  [] tag = "path" -> BBoxPts(CatAll(Contours(g), 1, <<>>))
                  [] OTHER -> <<0, 0, 1, 1>>

(* the resolved gradient of a layer: kind, spread, stops, units, gT, coordinates *)
GradOf(doc, gi) ==
  LET ga == GradAttrs(doc, gi, 4)
      at == ga.at
      lin == doc.nodes[gi].tag = "linearGradient"
      units == IF Has(at, "gradientUnits") THEN Get(at, "gradientUnits") ELSE "objectBoundingBox"
      bb == units = "objectBoundingBox"
      vw == doc.view[3]  vh == doc.view[4]
      \* defaults: percentages of the bbox (unit square) or of the viewport
      Dim(name) == IF name \in {"y1", "y2", "cy", "fy"} THEN vh ELSE vw   \* (square viewBox: diagonal/sqrt2 = side)
      Dft(name, pctnum) == IF Has(at, name)
                           THEN (IF Get(at, name)[3] = 1 /\ ~bb       \* a percentage of the viewport
                                 THEN RedQ(Get(at, name)[1] * Dim(name), 100 * Get(at, name)[2])
                                 ELSE Val(Get(at, name)))
                         ELSE IF bb THEN RedQ(pctnum, 100)
                         ELSE RedQ(pctnum * (IF name \in {"y1", "y2", "cy", "fy"} THEN vh ELSE vw), 100)
      cx == Dft("cx", 50)  cy == Dft("cy", 50)
      focal == ~lin /\ ((Has(at, "fx") /\ Dft("fx", 50)[1] * cx[2] # cx[1] * Dft("fx", 50)[2])
                        \/ (Has(at, "fy") /\ Dft("fy", 50)[1] * cy[2] # cy[1] * Dft("fy", 50)[2])
                        \/ (Has(at, "fr") /\ Val(Get(at, "fr"))[1] # 0))
      fx == IF Has(at, "fx") THEN Dft("fx", 50) ELSE cx
      fy == IF Has(at, "fy") THEN Dft("fy", 50) ELSE cy
      \* a radius given as a percentage of a non-square viewport involves sqrt((w^2+h^2)/2): not judged
      rOK == bb \/ vw = vh \/ ~Has(at, "r") \/ Get(at, "r")[3] = 0
  IN [kind |-> IF lin THEN "linear" ELSE IF focal THEN "radialf" ELSE "radial", num |-> lin \/ (rOK /\ (bb \/ vw = vh \/ Has(at, "r"))),
      f |-> <<fx, fy>>,
      spread |-> IF Has(at, "spreadMethod") THEN Get(at, "spreadMethod") ELSE "pad",
      stops |-> ga.stops, bb |-> bb,
      gt |-> IF Has(at, "gradientTransform") THEN ListMatrix(Get(at, "gradientTransform"), 1) ELSE Id,
      p1 |-> IF lin THEN <<Dft("x1", 0), Dft("y1", 0)>> ELSE <<cx, cy>>,
      p2 |-> IF lin THEN <<Dft("x2", 100), Dft("y2", 0)>> ELSE <<Dft("r", 50), <<0, 1>> >>]

GradPaint(gr) == "grad:" \o gr.kind \o ":" \o gr.spread \o ":" \o StopsSig(gr.stops, 1)

(* user-space image (x 64, floored) of the gradient-space point <<X, Y>> (rationals) under G *)
UserPt64(Gm, X, Y) ==
  LET D == Lcm(X[2], Y[2])
      xn == X[1] * (D \div X[2])  yn == Y[1] * (D \div Y[2])
      nx == (Gm[1] * xn + Gm[3] * yn + Gm[5] * D) * 64
      ny == (Gm[2] * xn + Gm[4] * yn + Gm[6] * D) * 64
  IN << nx \div (Gm[7] * D), ny \div (Gm[7] * D) >>

(* the gradient matrix of a layer *)
GradM(l) == LET bx == BBox(l.shape.tag, l.shape.g)
                G0 == IF l.gr.bb THEN Mul(l.shape.m, <<bx[3], 0, 0, bx[4], bx[1], bx[2], 1>>) ELSE l.shape.m
            IN Mul(G0, l.gr.gt)

(* invariants of a radial gradient, independent of how it is written down: image of the centre and of  *)
(* the focal point (x 64) and the conic  r^2 M M^T  of the image of the circle |q - c| = r  (x 4)       *)
RadialInv(l) ==
  LET Gm == GradM(l)
      c == UserPt64(Gm, l.gr.p1[1], l.gr.p1[2])
      f == UserPt64(Gm, l.gr.f[1], l.gr.f[2])
      R == l.gr.p2[1]                       \* r as a rational <<n, d>>
      k2 == Gm[7] * Gm[7] * R[2] * R[2]
      q(u, v) == (R[1] * R[1] * (u + v) * 4) \div k2
      small == Abs(Gm[1]) < 300 /\ Abs(Gm[2]) < 300 /\ Abs(Gm[3]) < 300 /\ Abs(Gm[4]) < 300 /\ R[1] < 70 /\ k2 < 100000
  IN IF ~small THEN <<FALSE, <<>> >>
     ELSE <<TRUE, <<c[1], c[2], f[1], f[2], q(Gm[1] * Gm[1], Gm[3] * Gm[3]), q(Gm[1] * Gm[2], Gm[3] * Gm[4]),
                    q(Gm[2] * Gm[2], Gm[4] * Gm[4])>> >>

(* floor(256 * n / m) for m > 0 without overflowing 32-bit integers (m < 8 * 10^6) *)
Scale256(n, m) == (n \div m) * 256 + ((n % m) * 256) \div m

(* gradient parameter of layer l (with l.gr the resolved gradient, l.shape the placed shape) at p: *)
(* <<defined, value>>: value = floor(256 t) (linear) or floor(256 t^2) (radial)                   *)
CeilDiv(a, b) == (a + b - 1) \div b
Max3(a, b, c) == IF a >= b /\ a >= c THEN a ELSE IF b >= c THEN b ELSE c

GradT(l, p) ==
  LET gr == l.gr
      G  == GradM(l)
  IN IF Det(G) = 0 THEN <<FALSE, 0>>
     ELSE LET q0 == PreImage(G, p[1], p[2], U)
              \* common denominator of the gradient coordinates
              DD == Lcm(Lcm(gr.p1[1][2], gr.p1[2][2]), Lcm(gr.p2[1][2], gr.p2[2][2]))
              X1 == gr.p1[1][1] * (DD \div gr.p1[1][2])   Y1 == gr.p1[2][1] * (DD \div gr.p1[2][2])
              X2 == gr.p2[1][1] * (DD \div gr.p2[1][2])   Y2 == gr.p2[2][1] * (DD \div gr.p2[2][2])
              vx == X2 - X1  vy == Y2 - Y1
          IN IF DD > 400 \/ Abs(X1) > 4000 \/ Abs(Y1) > 4000 \/ Abs(X2) > 4000 \/ Abs(Y2) > 4000 THEN <<FALSE, 0>>
             ELSE IF gr.kind = "linear"
             THEN LET vv == vx * vx + vy * vy
                      \* reduce the pre-image only as far as 32-bit arithmetic demands
                      f  == Max3(CeilDiv(q0[3], 8000000 \div (vv + 1)),
                                 CeilDiv(Abs(q0[1]) + Abs(q0[2]), 1000000 \div DD), 1)
                      q  == <<q0[1] \div f, q0[2] \div f, q0[3] \div f>>
                      ux == q[1] * DD - X1 * q[3]   uy == q[2] * DD - Y1 * q[3]       \* (q - p1) * den * DD
                      NN == ux * vx + uy * vy
                      MM == q[3] * vv
                  IN IF vv = 0 \/ vv > 30000 \/ q[3] = 0 \/ q0[3] > 100000000 THEN <<FALSE, 0>>
                     ELSE IF Abs(ux) > 2000000 \/ Abs(uy) > 2000000 \/ MM > 8000000 THEN <<FALSE, 0>>
                     ELSE <<TRUE, IF NN >= 0 THEN Scale256(NN, MM) ELSE 0 - Scale256(0 - NN, MM) - 1>>
             ELSE IF gr.kind = "radial"
             THEN \* t^2 = (ux^2 + uy^2) / (den * R)^2 with R = X2 (r * DD)
                  LET f0 == Max3(CeilDiv(Abs(q0[1]) + Abs(q0[2]) + q0[3], 200000 \div DD), 1, 1)
                      q  == <<q0[1] \div f0, q0[2] \div f0, q0[3] \div f0>>
                      ux == q[1] * DD - X1 * q[3]   uy == q[2] * DD - Y1 * q[3]
                      mR == q[3] * X2
                      \* bring the denominator to about 2800 (its square must stay below 8 * 10^6)
                      g  == CeilDiv(Abs(mR), 2800)
                      a  == ux \div g   b == uy \div g   m == mR \div g
                  IN IF X2 <= 0 \/ q[3] = 0 \/ g = 0 \/ m = 0 THEN <<FALSE, 0>>
                     ELSE IF Abs(a) > 30000 \/ Abs(b) > 30000 THEN <<FALSE, 0>>
                     ELSE <<TRUE, Scale256(a * a + b * b, m * m)>>
             ELSE <<FALSE, 0>>
=============================================================================
