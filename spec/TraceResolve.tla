---------------------------- MODULE TraceResolve ----------------------------
(***************************************************************************)
(* L3 trace spec for C17.  A trace is one conversion of an adversarial     *)
(* document run under a watchdog with the hooks on:                         *)
(*   [kind, uses (reference matrix, for kind = "usegraph": row x+1 = uses   *)
(*    inside element x, x = 0 the body), rounds (n_use logged by every      *)
(*    use_round event of the first resolution), nclip, ngrad (number of     *)
(*    clip_enter / grad_enter events), end ("ok" | "exc:<type>" | "killed"), *)
(*    canary (0/1 external entity content seen), out (projection when ok)]   *)
(* Clauses: never killed; no external entity content; a normal return is a  *)
(* picosvg; the logged work respects the bound predicted by the reference    *)
(* model of use resolution (Resolve.tla's round = matrix product).           *)
(***************************************************************************)
EXTENDS PicoGrammar, Json, IOUtils, TLC

Cases == ndJsonDeserialize(IOEnv.TRACES)
VARIABLES blk, tid, verdict

RECURSIVE SumSeq(_, _)
SumSeq(s, i) == IF i > Len(s) THEN 0 ELSE s[i] + SumSeq(s, i + 1)
TotalU(u) == SumSeq([x \in 1..Len(u) |-> SumSeq(u[x], 1)], 1)
NIds(u) == Len(u) - 1
(* one round: uses'[x][j] = SUM_r uses[x][r] * uses[r][j]   (row of id r is u[r + 1]) *)
RoundU(u) == [x \in 1..Len(u) |-> [j \in 1..NIds(u) |->
                SumSeq([r \in 1..NIds(u) |-> u[x][r] * u[r + 1][j]], 1)]]
RECURSIVE Totals(_, _, _)
Totals(u, k, acc) == IF TotalU(u) = 0 \/ k = 0 THEN Append(acc, TotalU(u))
                     ELSE Totals(RoundU(u), k - 1, Append(acc, TotalU(u)))
RECURSIVE ReachU(_, _, _)
ReachU(u, S, k) == IF k = 0 THEN S
                   ELSE ReachU(u, S \cup {b \in 1..NIds(u) : \E a \in S : u[a + 1][b] > 0}, k - 1)
CyclicU(u) == \E a \in 1..NIds(u) : a \in ReachU(u, {b \in 1..NIds(u) : u[a + 1][b] > 0}, NIds(u))

IsPrefix(s, t) == Len(s) <= Len(t) /\ \A i \in 1..Len(s) : s[i] = t[i]

Judge(c) ==
  IF c.end = "killed" THEN "BAD:killed-by-watchdog"
  ELSE IF c.crashed = 1 THEN "BAD:process-crash"
  ELSE IF c.canary = 1 THEN "BAD:external-entity-read"
  ELSE IF c.end = "ok" /\ Violations(c.out, 3, FALSE) # {}
       THEN "BAD:returned-non-picosvg:" \o (CHOOSE v \in Violations(c.out, 3, FALSE) : TRUE)
  ELSE IF c.kind = "usegraph"
  THEN LET cyc == CyclicU(c.uses)
           pred == Totals(c.uses, NIds(c.uses) + 1, <<>>)
       IN IF cyc /\ c.end = "ok" THEN "BAD:cyclic-reference-returned-normally"
          ELSE IF ~cyc /\ Len(c.rounds) > 0 /\ ~IsPrefix(pred, c.rounds) /\ SumSeq(c.rounds, 1) > 4 * SumSeq(pred, 1) + 8
               THEN "BAD:work-exceeds-expanded-size"
          ELSE IF cyc THEN "ok:cycle-rejected"
          ELSE IF IsPrefix(pred, c.rounds) THEN "ok:rounds-as-modelled" ELSE "ok:model-drift"
  ELSE IF c.nclip > 2000 \/ c.ngrad > 2000 THEN "BAD:work-exceeds-expanded-size"
  ELSE IF c.end = "ok" THEN "ok:returned-picosvg" ELSE "ok:raised"

NCases == Len(Cases)
NBlk == 64
Init == blk \in 1..NBlk /\ tid = 0 /\ verdict = "block"
Fan == /\ verdict = "block"
       /\ \E t \in 1..NCases : t % NBlk = blk - 1 /\ tid' = t
       /\ verdict' = "pending" /\ UNCHANGED blk
Do == /\ verdict = "pending"
      /\ verdict' = Judge(Cases[tid])
      /\ PrintT("V " \o ToString(tid) \o " " \o verdict')
      /\ UNCHANGED <<tid, blk>>
Next == Fan \/ Do
Spec == Init /\ [][Next]_<<blk, tid, verdict>>
=============================================================================
