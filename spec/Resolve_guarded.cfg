SPECIFICATION Spec
CONSTANTS
  N = 3
  Guard = TRUE
  MaxSize = 64
INVARIANT NeverUnbounded
INVARIANT RoundsBounded
PROPERTY Terminates
CHECK_DEADLOCK FALSE
