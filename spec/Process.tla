------------------------------ MODULE Process ------------------------------
(***************************************************************************)
(* L2 model for C16: processes that convert documents.  A process has a    *)
(* hash seed and a history (the documents it converted so far, in order);  *)
(* the conversion result is observed as a content hash.                     *)
(*                                                                          *)
(* The property: the output is a function of (input, options) alone.  In    *)
(* the model this is the guard of Convert: the first observation of a key   *)
(* fixes memo[key], every later observation - by any process, under any     *)
(* seed, after any history - must agree with it.                             *)
(*                                                                          *)
(* Used two ways: (a) as an environment model, TLC -simulate draws          *)
(* schedules (which process converts which document in which order, fresh    *)
(* vs. long-lived, failing conversions interleaved) that the driver          *)
(* executes on the real code; (b) TraceProcess.tla re-uses Convert to        *)
(* validate the recorded events.                                             *)
(***************************************************************************)
EXTENDS Naturals, Sequences, FiniteSets, TLC, Json

CONSTANTS Procs,        \* process ids
          Seeds,        \* hash seeds ("random" allowed)
          NDocs,        \* documents are 1..NDocs (the last NBad of them make the conversion raise)
          MaxPerProc

VARIABLES seed,    \* [Procs -> Seeds \cup {"-"}]  "-" = not started
          hist,    \* [Procs -> Seq(1..NDocs)]
          memo,    \* key -> observed output hash
          done

vars == <<seed, hist, memo, done>>

Init == /\ seed = [p \in Procs |-> "-"]
        /\ hist = [p \in Procs |-> <<>>]
        /\ memo = <<>>          \* a function with empty domain
        /\ done = FALSE

Spawn(p, s) == /\ ~done /\ seed[p] = "-"
               /\ seed' = [seed EXCEPT ![p] = s]
               /\ UNCHANGED <<hist, memo, done>>

Lookup(m, key) == IF \E i \in 1..Len(m) : m[i][1] = key
                  THEN m[CHOOSE i \in 1..Len(m) : m[i][1] = key][2] ELSE "?"

(* process p converts input key (document + options) and observes out *)
Convert(p, d, key, out) ==
  /\ ~done /\ seed[p] # "-" /\ Len(hist[p]) < MaxPerProc
  /\ Lookup(memo, key) \in {"?", out}                    \* <- the property C16
  /\ memo' = IF Lookup(memo, key) = "?" THEN Append(memo, <<key, out>>) ELSE memo
  /\ hist' = [hist EXCEPT ![p] = Append(@, d)]
  /\ UNCHANGED <<seed, done>>

(* environment: in the model the implementation is an unknown FUNCTION of the key *)
ModelOut(key) == "h" \o ToString(key)

Next == \/ \E p \in Procs, s \in Seeds : Spawn(p, s)
        \/ \E p \in Procs, d \in 1..NDocs : Convert(p, d, d, ModelOut(d))
        \/ /\ ~done /\ \A p \in Procs : seed[p] # "-" /\ hist[p] # <<>>
           /\ done' = TRUE
           /\ PrintT("CASE " \o ToJson([seed |-> seed, hist |-> hist]))
           /\ UNCHANGED <<seed, hist, memo>>

Spec == Init /\ [][Next]_vars

(* design-level invariant: with a functional implementation no schedule can be refused *)
MemoFunctional == \A i, j \in 1..Len(memo) : memo[i][1] = memo[j][1] => memo[i][2] = memo[j][2]
=============================================================================
