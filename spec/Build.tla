------------------------------- MODULE Build -------------------------------
(***************************************************************************)
(* L2 environment model: the documents picosvg is given.  A behaviour of    *)
(* this specification builds one abstract SVG document (ADoc) node by node  *)
(* in document (pre-)order and emits it; TLC -simulate draws documents from *)
(* it (seeded), a bounded BFS enumerates the small ones.  The concretiser   *)
(* turns each emitted ADoc into SVG text, the real conversion is run on it  *)
(* and the recorded result is judged by TLC against SvgSem (TraceRender).   *)
(*                                                                          *)
(* ADoc == [vb |-> <<x,y,w,h>>, root |-> Attrs, nodes |-> Seq(Node)]         *)
(* Node == [d |-> depth >= 1, tag, id, at |-> Attrs, g |-> geometry, ref]    *)
(* Attrs == Seq(<<name, value, viaStyle \in {0,1}>>)                         *)
(* Values are symbolic: opacities are exponents e (alpha = 2^-e, -1 = 0),   *)
(* transforms are lists of ops with integer arguments, paints are names.    *)
(***************************************************************************)
EXTENDS TLC, Naturals, Integers, Sequences, SequencesExt, FiniteSets, Json

CONSTANTS Focus,      \* "struct" | "paint" | "clip" | "stroke" | "grad" | "mixed"
          MaxNodes,   \* number of nodes after which the document is closed
          MaxDepth

VARIABLES nodes, open, done, rnd

vars == <<nodes, open, done, rnd>>

(* All random choices of one step are functions of the state variable rnd (re-drawn by    *)
(* every step), so that a step is a deterministic function of the state: guards, ENABLED *)
(* and repeated references to a LET definition all see the same choices.                 *)
H(i) == (((rnd % 65521) * ((2 * i) + 1)) + ((rnd \div 65521) * 7919) + (i * 104729)) % 65521
PickN(i, S) == LET q == SetToSeq(S) IN q[1 + (H(i) % Len(q))]
MaybeN(i, p100) == (H(i) % 100) < p100

Containers == {"g", "defs", "clipPath", "svg", "symbol", "mask", "switch", "a", "filter"}

(* ------------------------------------------------------------------------ *)
(* catalogues                                                                *)
Colors == {"red", "blue", "lime"}

RectCat == { <<1,1,6,5,-1,-1>>, <<4,3,7,7,-1,-1>>, <<8,2,6,9,-1,-1>>, <<2,8,10,5,-1,-1>>,
             <<3,3,8,8,2,-1>>, <<5,1,4,12,-1,-1>> }
CircleCat == { <<6,6,4>>, <<9,9,5>>, <<4,10,3>> }
EllipseCat == { <<9,8,5,3>>, <<6,7,2,6>> }
PolyCat == { <<1,1, 15,3, 1,5>>, <<2,2, 12,3, 5,11>>, <<2,2, 10,10, 10,2, 2,10>>, <<8,1, 15,8, 8,15, 1,8>>,
             <<1,1, 9,1, 9,9, 1,9>> }
(* path data as exploded command lists; polygonal, some relative, some multi-contour *)
PathCat == {
  << <<"M",3,3>>, <<"h",8>>, <<"v",4>>, <<"h",-4>>, <<"v",4>>, <<"h",-4>>, <<"z">> >>,
  << <<"M",2,2>>, <<"h",10>>, <<"v",10>>, <<"h",-10>>, <<"z">>,
     <<"M",5,5>>, <<"v",4>>, <<"h",4>>, <<"v",-4>>, <<"z">> >>,
  << <<"M",2,2>>, <<"h",10>>, <<"v",10>>, <<"h",-10>>, <<"z">>,
     <<"M",5,5>>, <<"h",4>>, <<"v",4>>, <<"h",-4>>, <<"z">> >>,
  << <<"m",1,6>>, <<"l",6,-5>>, <<"l",6,5>>, <<"L",7,14>>, <<"Z">> >>,
  << <<"M",4,4>>, <<"L",12,4>>, <<"L",4,12>>, <<"L",12,12>>, <<"Z">> >>,
  << <<"M",1,1>>, <<"H",7>>, <<"V",7>>, <<"H",1>>, <<"Z">>, <<"m",8,8>>, <<"h",5>>, <<"v",5>>, <<"h",-5>>, <<"z">> >>
}

(* transform ops:  <<"translate",tx,ty>> <<"scale",sxn,syn,den>> <<"rotate",deg,cx,cy>>   *)
(*                 <<"skewX",45>> <<"skewY",45>> <<"matrix",a,b,c,d,e,f>>                  *)
TfOps == { <<"translate",3,1>>, <<"translate",-2,2>>, <<"translate",0,4>>,
           <<"scale",2,2,1>>, <<"scale",1,1,2>>, <<"scale",2,1,1>>, <<"scale",-1,1,1>>,
           <<"rotate",90,8,8>>, <<"rotate",180,8,8>>, <<"rotate",270,8,8>>, <<"rotate",90,0,0>>,
           <<"skewX",45>>, <<"skewY",45>>,
           <<"matrix",0,1,1,0,0,0>>, <<"matrix",1,0,0,-1,0,16>>, <<"matrix",1,1,-1,1,8,0>>,
           \* close to the identity (entries over 8): within a coefficient-wise tolerance of 0.16 but
           \* displacing far-away geometry by up to 2 units
           <<"matrixq",8,0,1,8,0,0,8>>, <<"matrixq",9,0,0,9,0,0,8>>, <<"matrixq",8,1,0,8,0,0,8>> }

(* the near-identity rational ops carry a denominator; to keep composed CTMs inside TLC's 32-bit *)
(* integers they are only used alone, on top-level elements of documents with the large viewBox   *)
QOps == {op \in TfOps : op[1] = "matrixq"}
TfList(n_) == IF Len(open) = 0 /\ Focus = "struct" /\ MaybeN(106, 22) THEN <<PickN(107, QOps)>>
              ELSE IF MaybeN(101, 55) THEN <<>>
              ELSE IF MaybeN(102, 60) THEN <<PickN(103, TfOps \ QOps)>>
              ELSE <<PickN(104, TfOps \ QOps), PickN(105, TfOps \ QOps)>>

(* ------------------------------------------------------------------------ *)
(* attribute sets                                                            *)
Opt(i, name, S, p) == IF MaybeN(3 * i, p) THEN << <<name, PickN(3 * i + 1, S), IF MaybeN(3 * i + 2, 30) THEN 1 ELSE 0>> >> ELSE <<>>

PaintAttrs(n_) ==
     Opt(107, "fill", Colors \cup {"none", "black"}, IF Focus \in {"paint", "mixed"} THEN 60 ELSE 45)
  \o Opt(108, "fill-opacity", {0, 1, 2, -1}, IF Focus = "paint" THEN 35 ELSE 8)
  \o Opt(109, "opacity", IF Focus \in {"paint", "mixed"} /\ MaybeN(109 + 900, 12) THEN {-2, -3, -4} ELSE IF Focus = "mixed" THEN {0, 1, 2, 10, 11, 12, -1} ELSE {0, 1, 2, 1, 2, -1}, IF Focus = "paint" THEN 45 ELSE 12)
  \o Opt(110, "fill-rule", {"nonzero", "evenodd"}, 25)
  \o Opt(111, "display", {"none", "inline"}, IF Focus = "paint" THEN 10 ELSE 4)

StrokeAttrs(n_) ==
  IF Focus \notin {"stroke", "mixed", "grad"} \/ ~MaybeN(112, IF Focus = "stroke" THEN 85 ELSE 25) THEN <<>>
  ELSE Opt(113, "stroke", Colors, 90)
    \o Opt(114, "stroke-width", {1, 2, 2, 4, 0}, 75)
    \o Opt(115, "stroke-linecap", {"butt", "round", "square"}, 45)
    \o Opt(116, "stroke-linejoin", {"miter", "round", "bevel"}, 45)
    \o Opt(117, "stroke-miterlimit", {1, 4, 10}, 20)
    \o Opt(118, "stroke-dasharray", { <<2>>, <<2, 1>>, <<3, 1, 1>>, <<1, 1, 2, 2>>, <<>>, <<2, 0>>, <<0, 2>> }, IF Focus = "stroke" THEN 45 ELSE 30)
    \o Opt(119, "stroke-dashoffset", {0, 1, -1, 5}, IF Focus = "stroke" THEN 45 ELSE 20)
    \o Opt(120, "stroke-opacity", {0, 1, 2, -1}, 20)

(* a stroke property given as attribute AND in style with another value (style wins) *)
ConflictS(at) == IF Focus = "stroke" /\ at # <<>> /\ MaybeN(460, 18)
                 THEN IF MaybeN(461, 50) THEN at \o << <<"stroke-width", PickN(462, {1, 2, 4}), 1>> >>
                      ELSE at \o << <<"stroke-linecap", PickN(462, {"butt", "round", "square"}), 1>> >>
                 ELSE at

(* the same property may be given twice: as attribute AND in style (style wins) *)
Conflict(at) == IF Focus = "paint" /\ MaybeN(121, 15)
                THEN at \o << <<"fill", PickN(122, Colors), 1>> >> ELSE at

TfAttr(n_) == LET t == TfList(n_) IN IF t = <<>> \/ (Focus = "paint" /\ MaybeN(123, 60)) THEN <<>>
                             ELSE << <<"transform", t, 0>> >>

Ids(tags) == {nodes[i].id : i \in {j \in 1..Len(nodes) : nodes[j].tag \in tags /\ nodes[j].id # ""}}
OpenIds == {nodes[open[i]].id : i \in 1..Len(open)}

ClipAttr == LET cs == Ids({"clipPath"}) \ OpenIds
            IN IF Focus \in {"clip", "mixed"} /\ cs # {} /\ MaybeN(124, IF Focus = "clip" THEN 60 ELSE 20)
               THEN << <<"clip-path", PickN(125, cs), 0>> >> ELSE <<>>

InClip == \E i \in 1..Len(open) : nodes[open[i]].tag = "clipPath"
InDefs == \E i \in 1..Len(open) : nodes[open[i]].tag \in {"defs", "symbol"}

GradIds == Ids({"linearGradient", "radialGradient"})
GradFill(at) == IF Focus \in {"grad", "mixed"} /\ GradIds # {} /\ MaybeN(126, IF Focus = "grad" THEN 80 ELSE 30)
                THEN SelectSeq(at, LAMBDA t : t[1] # "fill") \o << <<"fill", "url(#" \o PickN(127, GradIds) \o ")", 0>>,
                                                                 <<"fillref", PickN(127, GradIds), 0>> >>
                ELSE at

ShapeAttrs == IF InClip
              THEN Opt(128, "clip-rule", {"nonzero", "evenodd"}, 40) \o TfAttr(Len(nodes))
              ELSE GradFill(Conflict(PaintAttrs(Len(nodes)))) \o ConflictS(StrokeAttrs(Len(nodes)))
                   \o TfAttr(Len(nodes)) \o ClipAttr

(* most ids are fresh; some imitate the names picosvg generates for cloned gradients *)
NewId == LET gs == {nodes[i].id : i \in {j \in 1..Len(nodes) : nodes[j].tag \in {"linearGradient", "radialGradient"}}}
             cand == {g \o sfx : g \in gs, sfx \in {"_0", "_1", "_2"}} \ {nodes[i].id : i \in 1..Len(nodes)}
         IN IF cand # {} /\ MaybeN(77, 25) THEN PickN(78, cand) ELSE "n" \o ToString(Len(nodes) + 1)

(* curved / shorthand path data: only for the structural foci (the rendering semantics of SvgSem is   *)
(* defined on polygonal geometry, so these never enter a rendering check)                              *)
CurvyPathCat == {
  << <<"M",2,2>>, <<"Q",8,0,12,6>>, <<"T",4,12>>, <<"z">> >>,
  << <<"M",1,8>>, <<"q",4,-8,8,0>>, <<"t",6,0>>, <<"L",8,14>>, <<"Z">> >>,
  << <<"M",2,8>>, <<"C",2,2,10,2,10,8>>, <<"S",6,14,2,8>>, <<"z">> >>,
  << <<"M",3,3>>, <<"c",2,-3,6,-3,8,0>>, <<"s",2,6,-2,8>>, <<"l",-6,0>>, <<"z">> >>,
  << <<"M",2,6>>, <<"A",4,3,30,1,0,12,9>>, <<"L",3,13>>, <<"Z">> >>,
  << <<"M",1,1>>, <<"H",9>>, <<"v",5>>, <<"a",3,3,0,0,1,-6,0>>, <<"z">> >> }

Geom(tag) == CASE tag = "rect" -> PickN(129, RectCat)
               [] tag = "circle" -> PickN(130, CircleCat)
               [] tag = "ellipse" -> PickN(131, EllipseCat)
               [] tag \in {"polygon", "polyline"} -> PickN(132, PolyCat)
               [] tag = "path" -> IF Focus = "mixed" /\ MaybeN(133 + 700, 40) THEN PickN(133 + 701, CurvyPathCat) ELSE PickN(133, PathCat)
               [] tag = "line" -> <<1, 2, 12, 9>>
               [] OTHER -> <<>>

ShapeTags == {"rect", "circle", "ellipse", "polygon", "polyline", "path"}

Depth == Len(open) + 1

Push(node) == /\ nodes' = Append(nodes, node)
              /\ open' = IF node.tag \in Containers THEN Append(open, Len(nodes) + 1) ELSE open

AddShape ==
  /\ \E tag \in ShapeTags :
       Push([d |-> Depth, tag |-> tag, id |-> IF MaybeN(134, 35) THEN NewId ELSE "",
             at |-> ShapeAttrs, g |-> Geom(tag), ref |-> ""])

AddGroup ==
  /\ Depth < MaxDepth /\ ~InClip
  /\ Push([d |-> Depth, tag |-> "g", id |-> IF MaybeN(135, 30) THEN NewId ELSE "",
           at |-> PaintAttrs(Len(nodes)) \o StrokeAttrs(Len(nodes)) \o TfAttr(Len(nodes)) \o ClipAttr,
           g |-> <<>>, ref |-> ""])

AddDefs ==
  /\ Depth < MaxDepth /\ ~InClip /\ ~InDefs
  /\ Push([d |-> Depth, tag |-> "defs", id |-> "", at |-> <<>>, g |-> <<>>, ref |-> ""])

AddClipPath ==
  /\ Focus \in {"clip", "mixed"} /\ Depth < MaxDepth /\ ~InClip
  /\ LET cs == Ids({"clipPath"}) \ OpenIds
         cc == IF cs # {} /\ MaybeN(136, 25) THEN << <<"clip-path", PickN(137, cs), 0>> >> ELSE <<>>
     IN Push([d |-> Depth, tag |-> "clipPath", id |-> NewId,
              at |-> cc \o (IF MaybeN(138, 25) THEN << <<"transform", <<PickN(139, TfOps \ QOps)>>, 0>> >> ELSE <<>>)
                       \o (IF MaybeN(140, 15) THEN << <<"clip-rule", PickN(141, {"nonzero","evenodd"}), 0>> >> ELSE <<>>),
              g |-> <<>>, ref |-> ""])

HasA2(at, name) == \E k \in 1..Len(at) : at[k][1] = name
AddUse ==
  /\ LET targets == Ids(ShapeTags \cup {"g", "use"}) \ OpenIds
     IN /\ targets # {}
        /\ Push([d |-> Depth, tag |-> "use", id |-> IF MaybeN(142, 20) THEN NewId ELSE "",
                 at |-> (IF InClip THEN <<>>
                         ELSE PaintAttrs(Len(nodes)) \o StrokeAttrs(Len(nodes) + 50) \o ClipAttr
                              \o (IF Focus = "stroke" /\ ~HasA2(PaintAttrs(Len(nodes)), "opacity")
                                  THEN Opt(470, "opacity", {1, 2}, 45) ELSE <<>>))
                      \o TfAttr(Len(nodes)),
                 g |-> IF MaybeN(143, 50) THEN <<0, 0>> ELSE <<PickN(144, {-2, 3, 5}), PickN(145, {0, 1, 4})>>,
                 ref |-> PickN(146, targets)])

(* nested svg: g == <<x, y, w, h, viewBox (<<>> or 4 ints), preserveAspectRatio, overflow>> *)
Aligns == {"xMinYMin", "xMidYMin", "xMaxYMin", "xMinYMid", "xMidYMid", "xMaxYMid",
           "xMinYMax", "xMidYMax", "xMaxYMax"}
AddSvg ==
  /\ Focus \in {"struct", "mixed"} /\ Depth < MaxDepth /\ ~InClip /\ ~InDefs
  /\ Cardinality({i \in 1..Len(open) : nodes[open[i]].tag = "svg"}) <= 1
  /\ LET par == IF MaybeN(147, 30) THEN <<>> ELSE IF MaybeN(148, 15) THEN <<"none">>
                ELSE <<PickN(149, Aligns), PickN(150, {"", "meet", "slice"})>>
         sx == PickN(155, {0, 2, 4})  sy == PickN(156, {0, 1, 4})
         sw == PickN(157, {8, 12, 16, -1})  sh == PickN(158, {8, 10, 16, -1})
         \* (a viewBox that coincides with the viewport is the identity, not a translation)
         vb  == IF MaybeN(151, 25) THEN <<>>
                ELSE IF sw > 0 /\ sh > 0 /\ MaybeN(474, 20) THEN <<sx, sy, sw, sh>>
                ELSE PickN(152, { <<0,0,16,16>>, <<0,0,8,16>>, <<2,2,12,6>>, <<0,0,32,32>> })
         tf  == IF MaybeN(153, 30) THEN << <<"transform", <<PickN(154, TfOps \ QOps)>>, 0>> >> ELSE <<>>
         \* a nested svg is a container like g: what it says about painting applies to its content
         pa  == Opt(470, "fill", Colors, 30) \o Opt(471, "opacity", {1, 2}, 15) \o Opt(472, "display", {"none"}, 6)
                \o Opt(473, "fill-opacity", {1, 2}, 10)
     IN Push([d |-> Depth, tag |-> "svg", id |-> "",
              at |-> tf \o pa,
              g |-> <<sx, sy, sw, sh, vb, par,
                      IF tf # <<>> THEN "visible" ELSE PickN(159, {"", "hidden", "visible", "visible"})>>,
              ref |-> ""])

(* gradients: coordinates are integers (user units or, for objectBoundingBox, percent strings) *)
GradUnits(n_) == PickN(160, {"", "userSpaceOnUse", "objectBoundingBox"})
GradCommon(n_) ==
     Opt(161, "gradientTransform", { <<PickN(162, TfOps \ QOps)>>, <<PickN(163, TfOps \ QOps), PickN(164, TfOps \ QOps)>> }, 40)
  \o Opt(165, "spreadMethod", {"pad", "reflect", "repeat"}, 30)

AddGradient ==
  /\ Focus \in {"grad", "mixed"} /\ ~InClip
  /\ LET units == GradUnits(Len(nodes))
         bbox  == units # "userSpaceOnUse"
         ua    == IF units = "" THEN <<>> ELSE << <<"gradientUnits", units, 0>> >>
         lin   == MaybeN(166, 55)
         \* a coordinate is <<n, d, pct>>: the number n/d, written as a percentage when pct = 1
         BB == { <<0, 1, 1>>, <<25, 1, 1>>, <<50, 1, 1>>, <<100, 1, 1>>, <<75, 1, 1>>, <<1, 2, 0>>, <<1, 1, 0>>, <<0, 1, 0>>, <<1, 4, 0>> }
         \* user-space coordinates are plain numbers or percentages of the viewport (x: width, y: height)
         C(i, v) == IF bbox THEN PickN(i, BB)
                    ELSE IF MaybeN(i + 40, 30) THEN PickN(i + 41, { <<25, 1, 1>>, <<50, 1, 1>>, <<75, 1, 1>> })
                    ELSE <<v, 1, 0>>
         coords == IF lin
                   THEN Opt(168, "x1", {C(561, 2)}, 70) \o Opt(169, "y1", {C(562, 3)}, 60) \o Opt(170, "x2", {C(563, 12)}, 80) \o Opt(171, "y2", {C(564, 9)}, 60)
                   ELSE Opt(172, "cx", {C(565, 8)}, 75) \o Opt(173, "cy", {C(566, 7)}, 75) \o Opt(174, "r", {IF bbox THEN PickN(567, BB \ {<<0, 1, 1>>, <<0, 1, 0>>}) ELSE <<6, 1, 0>>}, 80)
                        \o Opt(175, "fx", {C(568, 6)}, 20) \o Opt(176, "fy", {C(569, 7)}, 20)
         coordsA == [k \in 1..Len(coords) |-> <<coords[k][1], coords[k][2], 0>>]
         href  == IF GradIds # {} /\ MaybeN(177, 30) THEN PickN(178, GradIds) ELSE ""
     IN Push([d |-> Depth, tag |-> IF lin THEN "linearGradient" ELSE "radialGradient", id |-> NewId,
              at |-> ua \o coordsA \o [k \in 1..Len(GradCommon(Len(nodes))) |->
                                          <<GradCommon(Len(nodes))[k][1], GradCommon(Len(nodes))[k][2], 0>>],
              g |-> IF href # "" /\ MaybeN(179, 50) THEN <<>>
                    ELSE PickN(180, { << <<0, "red">>, <<100, "blue">> >>,
                                << <<0, "lime">>, <<50, "red">>, <<100, "blue">> >>,
                                << <<25, "blue">>, <<75, "lime">> >> }),
              ref |-> href])

(* content picosvg does not support or ignores *)
AddOther ==
  /\ Focus = "mixed" /\ ~InClip
  /\ \E tag \in {"filter", "mask", "image", "text", "title", "desc", "metadata", "symbol",
                   "foreign", "style", "switch", "a"} :
       Push([d |-> Depth, tag |-> tag,
             id |-> IF tag = "symbol" /\ MaybeN(181, 50) THEN NewId ELSE "",
             at |-> <<>>, g |-> <<>>, ref |-> ""])

CloseOne == /\ open # <<>>
            /\ nodes[Len(nodes)].tag \notin Containers \/ Len(nodes) > open[Len(open)]
            /\ open' = SubSeq(open, 1, Len(open) - 1)
            /\ UNCHANGED nodes

RootAttrs(n_) == IF Focus \in {"paint", "mixed"} /\ MaybeN(401, 30)
                 THEN Opt(402, "fill", Colors \cup {"none"}, 70) \o Opt(403, "fill-rule", {"evenodd"}, 20)
                      \o Opt(404, "fill-opacity", {1, 2}, 20)
                      \o (IF Focus = "paint" THEN Opt(405, "opacity", {1, 2}, 30) ELSE <<>>)
                      \o (IF Focus = "mixed" THEN Opt(405, "opacity", {1, 2}, 35) \o Opt(406, "stroke", Colors, 20)
                                                  \o Opt(407, "stroke-width", {2}, 20)
                                                  \o Opt(408, "display", {"inline"}, 10)
                          ELSE <<>>)
                 ELSE <<>>

(* SVG 1.1 and browsers disagree on whether the x/y of a use shifts its clip-path; *)
(* keep the environment inside the uncontroversial part: clipped use => x = y = 0   *)
HasAttr(at, name) == \E k \in 1..Len(at) : at[k][1] = name
Settle(nd) == IF nd.tag = "use" /\ HasAttr(nd.at, "clip-path") THEN [nd EXCEPT !.g = <<0, 0>>] ELSE nd
(* vb is the region the content lives in (and is sampled on); view is the viewBox attribute that  *)
(* is written out: picosvg's tolerances are relative to it, so a drawing in the corner of a large    *)
(* viewBox exposes tolerance misuse                                                                  *)
View(n_) == IF Focus = "struct" /\ MaybeN(450, 25) THEN <<0, 0, 160, 160>>
            ELSE IF Focus = "grad" /\ MaybeN(451, 30) THEN <<0, 0, 16, 32>>      \* non-square: x and y percentages differ
            ELSE <<0, 0, 16, 16>>
Doc == [vb |-> <<0, 0, 16, 16>>, view |-> View(Len(nodes)), root |-> RootAttrs(Len(nodes)),
        nodes |-> [k \in 1..Len(nodes) |-> Settle(nodes[k])]]

Init == nodes = <<>> /\ open = <<>> /\ done = FALSE /\ rnd \in 0..63

(* weighted choice of the next construction step (percent), per focus *)
Kind(n_) ==
  LET r == 1 + (H(186) % 100)
      \* shape, g, defs, clipPath, use, svg, close, gradient, other  (remainder: finish)
      W == CASE Focus = "paint"  -> <<40, 28, 0, 0, 8, 0, 18, 0, 0>>
             [] Focus = "clip"   -> <<38, 14, 4, 18, 8, 0, 14, 0, 0>>
             [] Focus = "struct" -> <<40, 16, 5, 0, 12, 9, 14, 0, 0>>
             [] Focus = "stroke" -> <<46, 16, 0, 0, 14, 0, 16, 0, 0>>
             [] Focus = "grad"   -> <<40, 14, 4, 0, 6, 0, 14, 18, 0>>
             [] OTHER            -> <<30, 12, 5, 7, 8, 5, 13, 9, 7>>
      c == [k \in 1..9 |-> IF k = 1 THEN W[1] ELSE 0]
      S(k) == IF k = 0 THEN 0 ELSE W[1] + (IF k >= 2 THEN W[2] ELSE 0) + (IF k >= 3 THEN W[3] ELSE 0)
                 + (IF k >= 4 THEN W[4] ELSE 0) + (IF k >= 5 THEN W[5] ELSE 0) + (IF k >= 6 THEN W[6] ELSE 0)
                 + (IF k >= 7 THEN W[7] ELSE 0) + (IF k >= 8 THEN W[8] ELSE 0) + (IF k >= 9 THEN W[9] ELSE 0)
  IN IF r <= S(1) THEN "shape"
     ELSE IF r <= S(2) THEN "g"
     ELSE IF r <= S(3) THEN "defs"
     ELSE IF r <= S(4) THEN "clipPath"
     ELSE IF r <= S(5) THEN "use"
     ELSE IF r <= S(6) THEN "svg"
     ELSE IF r <= S(7) THEN "close"
     ELSE IF r <= S(8) THEN "gradient"
     ELSE IF r <= S(9) THEN "other"
     ELSE "finish"

CanClose == open # <<>> /\ (nodes[Len(nodes)].tag \notin Containers \/ Len(nodes) > open[Len(open)])

Grow == /\ ~done /\ Len(nodes) < MaxNodes
        /\ UNCHANGED done
        /\ rnd' = RandomElement(0..999999)
        /\ LET k == Kind(Len(nodes))
           IN IF k = "g" /\ ENABLED AddGroup THEN AddGroup
              ELSE IF k = "defs" /\ ENABLED AddDefs THEN AddDefs
              ELSE IF k = "clipPath" /\ ENABLED AddClipPath THEN AddClipPath
              ELSE IF k = "use" /\ ENABLED AddUse THEN AddUse
              ELSE IF k = "svg" /\ ENABLED AddSvg THEN AddSvg
              ELSE IF k = "gradient" /\ ENABLED AddGradient THEN AddGradient
              ELSE IF k = "other" /\ ENABLED AddOther THEN AddOther
              ELSE IF k = "close" /\ CanClose THEN CloseOne
              ELSE IF k = "finish" /\ Len(nodes) >= 2 THEN FALSE
              ELSE AddShape

(* a container that was opened last and is still empty would be an empty element: allowed *)
Finish == /\ ~done /\ Len(nodes) >= 1
          /\ (Len(nodes) >= MaxNodes \/ ~ENABLED Grow)
          /\ done' = TRUE
          /\ PrintT("CASE " \o ToJson(Doc))
          /\ UNCHANGED <<nodes, open, rnd>>

Next == Grow \/ Finish
Spec == Init /\ [][Next]_vars

(* structural sanity of everything the environment emits (checked by TLC)   *)
WellFormed ==
  /\ \A i \in 1..Len(nodes) : nodes[i].d >= 1 /\ (i > 1 => nodes[i].d <= nodes[i - 1].d + 1)
  /\ \A i \in 1..Len(nodes) : (i > 1 /\ nodes[i].d = nodes[i - 1].d + 1) => nodes[i - 1].tag \in Containers
  /\ \A i, j \in 1..Len(nodes) : (i # j /\ nodes[i].id # "") => nodes[i].id # nodes[j].id
=============================================================================
