------------------------------- MODULE Build -------------------------------
(***************************************************************************)
(* L2 environment model: the documents picosvg is given.  A behaviour of    *)
(* this specification builds one abstract SVG document (ADoc) node by node  *)
(* in document (pre-)order and emits it; TLC -simulate draws documents from *)
(* it (seeded), a bounded BFS enumerates the small ones.  The concretiser   *)
(* turns each emitted ADoc into SVG text, the real conversion is run on it  *)
(* and the recorded result is judged by TLC against SvgSem (TraceRender).   *)
(*                                                                          *)
(* ADoc == [vb |-> <<x,y,w,h>>, root |-> Attrs, nodes |-> Seq(Node)]         *)
(* Node == [d |-> depth >= 1, tag, id, at |-> Attrs, g |-> geometry, ref]    *)
(* Attrs == Seq(<<name, value, viaStyle \in {0,1}>>)                         *)
(* Values are symbolic: opacities are exponents e (alpha = 2^-e, -1 = 0),   *)
(* transforms are lists of ops with integer arguments, paints are names.    *)
(***************************************************************************)
EXTENDS TLC, Naturals, Integers, Sequences, FiniteSets, Json

CONSTANTS Focus,      \* "struct" | "paint" | "clip" | "stroke" | "grad" | "mixed"
          MaxNodes,   \* number of nodes after which the document is closed
          MaxDepth

VARIABLES nodes, open, done

vars == <<nodes, open, done>>

Pick(S) == RandomElement(S)
Maybe(p100) == RandomElement(1..100) <= p100

Containers == {"g", "defs", "clipPath", "svg", "symbol"}

(* ------------------------------------------------------------------------ *)
(* catalogues                                                                *)
Colors == {"red", "blue", "lime"}

RectCat == { <<1,1,6,5,-1,-1>>, <<4,3,7,7,-1,-1>>, <<8,2,6,9,-1,-1>>, <<2,8,10,5,-1,-1>>,
             <<3,3,8,8,2,-1>>, <<5,1,4,12,-1,-1>> }
CircleCat == { <<6,6,4>>, <<9,9,5>>, <<4,10,3>> }
EllipseCat == { <<9,8,5,3>>, <<6,7,2,6>> }
PolyCat == { <<2,2, 12,3, 5,11>>, <<2,2, 10,10, 10,2, 2,10>>, <<8,1, 15,8, 8,15, 1,8>>,
             <<1,1, 9,1, 9,9, 1,9>> }
(* path data as exploded command lists; polygonal, some relative, some multi-contour *)
PathCat == {
  << <<"M",3,3>>, <<"h",8>>, <<"v",4>>, <<"h",-4>>, <<"v",4>>, <<"h",-4>>, <<"z">> >>,
  << <<"M",2,2>>, <<"h",10>>, <<"v",10>>, <<"h",-10>>, <<"z">>,
     <<"M",5,5>>, <<"v",4>>, <<"h",4>>, <<"v",-4>>, <<"z">> >>,
  << <<"M",2,2>>, <<"h",10>>, <<"v",10>>, <<"h",-10>>, <<"z">>,
     <<"M",5,5>>, <<"h",4>>, <<"v",4>>, <<"h",-4>>, <<"z">> >>,
  << <<"m",1,6>>, <<"l",6,-5>>, <<"l",6,5>>, <<"L",7,14>>, <<"Z">> >>,
  << <<"M",4,4>>, <<"L",12,4>>, <<"L",4,12>>, <<"L",12,12>>, <<"Z">> >>,
  << <<"M",1,1>>, <<"H",7>>, <<"V",7>>, <<"H",1>>, <<"Z">>, <<"m",8,8>>, <<"h",5>>, <<"v",5>>, <<"h",-5>>, <<"z">> >>
}

(* transform ops:  <<"translate",tx,ty>> <<"scale",sxn,syn,den>> <<"rotate",deg,cx,cy>>   *)
(*                 <<"skewX",45>> <<"skewY",45>> <<"matrix",a,b,c,d,e,f>>                  *)
TfOps == { <<"translate",3,1>>, <<"translate",-2,2>>, <<"translate",0,4>>,
           <<"scale",2,2,1>>, <<"scale",1,1,2>>, <<"scale",2,1,1>>, <<"scale",-1,1,1>>,
           <<"rotate",90,8,8>>, <<"rotate",180,8,8>>, <<"rotate",270,8,8>>, <<"rotate",90,0,0>>,
           <<"skewX",45>>, <<"skewY",45>>,
           <<"matrix",0,1,1,0,0,0>>, <<"matrix",1,0,0,-1,0,16>>, <<"matrix",1,1,-1,1,8,0>> }

TfList(n_) == IF Maybe(55) THEN <<>>
          ELSE IF Maybe(60) THEN <<Pick(TfOps)>>
          ELSE <<Pick(TfOps), Pick(TfOps)>>

(* ------------------------------------------------------------------------ *)
(* attribute sets                                                            *)
Opt(name, S, p) == IF Maybe(p) THEN << <<name, Pick(S), IF Maybe(30) THEN 1 ELSE 0>> >> ELSE <<>>

PaintAttrs(n_) ==
     Opt("fill", Colors \cup {"none", "black"}, IF Focus \in {"paint", "mixed"} THEN 60 ELSE 45)
  \o Opt("fill-opacity", {0, 1, 2, -1}, IF Focus = "paint" THEN 35 ELSE 8)
  \o Opt("opacity", {0, 1, 2, 1, 2, -1}, IF Focus = "paint" THEN 45 ELSE 8)
  \o Opt("fill-rule", {"nonzero", "evenodd"}, 25)
  \o Opt("display", {"none", "inline"}, IF Focus = "paint" THEN 10 ELSE 4)

(* the same property may be given twice: as attribute AND in style (style wins) *)
Conflict(at) == IF Focus = "paint" /\ Maybe(15)
                THEN at \o << <<"fill", Pick(Colors), 1>> >> ELSE at

TfAttr(n_) == LET t == TfList(n_) IN IF t = <<>> \/ (Focus = "paint" /\ Maybe(60)) THEN <<>>
                             ELSE << <<"transform", t, 0>> >>

Ids(tags) == {nodes[i].id : i \in {j \in 1..Len(nodes) : nodes[j].tag \in tags /\ nodes[j].id # ""}}
OpenIds == {nodes[open[i]].id : i \in 1..Len(open)}

ClipAttr == LET cs == Ids({"clipPath"}) \ OpenIds
            IN IF Focus \in {"clip", "mixed"} /\ cs # {} /\ Maybe(IF Focus = "clip" THEN 60 ELSE 20)
               THEN << <<"clip-path", Pick(cs), 0>> >> ELSE <<>>

InClip == \E i \in 1..Len(open) : nodes[open[i]].tag = "clipPath"
InDefs == \E i \in 1..Len(open) : nodes[open[i]].tag \in {"defs", "symbol"}

ShapeAttrs == IF InClip
              THEN Opt("clip-rule", {"nonzero", "evenodd"}, 40) \o TfAttr(Len(nodes))
              ELSE Conflict(PaintAttrs(Len(nodes))) \o TfAttr(Len(nodes)) \o ClipAttr

NewId == "n" \o ToString(Len(nodes) + 1)

Geom(tag) == CASE tag = "rect" -> Pick(RectCat)
               [] tag = "circle" -> Pick(CircleCat)
               [] tag = "ellipse" -> Pick(EllipseCat)
               [] tag \in {"polygon", "polyline"} -> Pick(PolyCat)
               [] tag = "path" -> Pick(PathCat)
               [] tag = "line" -> <<1, 2, 12, 9>>
               [] OTHER -> <<>>

ShapeTags == {"rect", "circle", "ellipse", "polygon", "polyline", "path"}

Depth == Len(open) + 1

Push(node) == /\ nodes' = Append(nodes, node)
              /\ open' = IF node.tag \in Containers THEN Append(open, Len(nodes) + 1) ELSE open

AddShape ==
  /\ \E tag \in ShapeTags :
       Push([d |-> Depth, tag |-> tag, id |-> IF Maybe(35) THEN NewId ELSE "",
             at |-> ShapeAttrs, g |-> Geom(tag), ref |-> ""])

AddGroup ==
  /\ Depth < MaxDepth /\ ~InClip
  /\ Push([d |-> Depth, tag |-> "g", id |-> IF Maybe(30) THEN NewId ELSE "",
           at |-> PaintAttrs(Len(nodes)) \o TfAttr(Len(nodes)) \o ClipAttr, g |-> <<>>, ref |-> ""])

AddDefs ==
  /\ Depth < MaxDepth /\ ~InClip /\ ~InDefs
  /\ Push([d |-> Depth, tag |-> "defs", id |-> "", at |-> <<>>, g |-> <<>>, ref |-> ""])

AddClipPath ==
  /\ Focus \in {"clip", "mixed"} /\ Depth < MaxDepth /\ ~InClip
  /\ LET cs == Ids({"clipPath"}) \ OpenIds
         cc == IF cs # {} /\ Maybe(25) THEN << <<"clip-path", Pick(cs), 0>> >> ELSE <<>>
     IN Push([d |-> Depth, tag |-> "clipPath", id |-> NewId,
              at |-> cc \o (IF Maybe(25) THEN << <<"transform", <<Pick(TfOps)>>, 0>> >> ELSE <<>>)
                       \o (IF Maybe(15) THEN << <<"clip-rule", Pick({"nonzero","evenodd"}), 0>> >> ELSE <<>>),
              g |-> <<>>, ref |-> ""])

AddUse ==
  /\ Focus \in {"struct", "paint", "clip", "mixed"}
  /\ LET targets == Ids(ShapeTags \cup {"g", "use"}) \ OpenIds
     IN /\ targets # {}
        /\ Push([d |-> Depth, tag |-> "use", id |-> IF Maybe(20) THEN NewId ELSE "",
                 at |-> (IF InClip THEN <<>> ELSE PaintAttrs(Len(nodes)) \o ClipAttr) \o TfAttr(Len(nodes)),
                 g |-> IF Maybe(50) THEN <<0, 0>> ELSE <<Pick({-2, 3, 5}), Pick({0, 1, 4})>>,
                 ref |-> Pick(targets)])

(* nested svg: g == <<x, y, w, h, viewBox (<<>> or 4 ints), preserveAspectRatio, overflow>> *)
Aligns == {"xMinYMin", "xMidYMin", "xMaxYMin", "xMinYMid", "xMidYMid", "xMaxYMid",
           "xMinYMax", "xMidYMax", "xMaxYMax"}
AddSvg ==
  /\ Focus \in {"struct", "mixed"} /\ Depth < MaxDepth /\ ~InClip /\ ~InDefs
  /\ Cardinality({i \in 1..Len(open) : nodes[open[i]].tag = "svg"}) <= 1
  /\ LET par == IF Maybe(30) THEN <<>> ELSE IF Maybe(15) THEN <<"none">>
                ELSE <<Pick(Aligns), Pick({"", "meet", "slice"})>>
         vb  == IF Maybe(25) THEN <<>> ELSE Pick({ <<0,0,16,16>>, <<0,0,8,16>>, <<2,2,12,6>>, <<0,0,32,32>> })
         tf  == IF Maybe(30) THEN << <<"transform", <<Pick(TfOps)>>, 0>> >> ELSE <<>>
     IN Push([d |-> Depth, tag |-> "svg", id |-> "",
              at |-> tf,
              g |-> <<Pick({0, 2, 4}), Pick({0, 1, 4}), Pick({8, 12, 16, -1}), Pick({8, 10, 16, -1}), vb, par,
                      IF tf # <<>> THEN "visible" ELSE Pick({"", "hidden", "visible", "visible"})>>,
              ref |-> ""])

CloseOne == /\ open # <<>>
            /\ nodes[Len(nodes)].tag \notin Containers \/ Len(nodes) > open[Len(open)]
            /\ open' = SubSeq(open, 1, Len(open) - 1)
            /\ UNCHANGED nodes

RootAttrs(n_) == IF Focus \in {"paint", "mixed"} /\ Maybe(30)
             THEN Opt("fill", Colors \cup {"none"}, 70) \o Opt("fill-rule", {"evenodd"}, 20)
                  \o Opt("fill-opacity", {1, 2}, 20)
             ELSE <<>>

(* SVG 1.1 and browsers disagree on whether the x/y of a use shifts its clip-path; *)
(* keep the environment inside the uncontroversial part: clipped use => x = y = 0   *)
HasAttr(at, name) == \E k \in 1..Len(at) : at[k][1] = name
Settle(nd) == IF nd.tag = "use" /\ HasAttr(nd.at, "clip-path") THEN [nd EXCEPT !.g = <<0, 0>>] ELSE nd
Doc == [vb |-> <<0, 0, 16, 16>>, root |-> RootAttrs(Len(nodes)),
        nodes |-> [k \in 1..Len(nodes) |-> Settle(nodes[k])]]

Init == nodes = <<>> /\ open = <<>> /\ done = FALSE

(* weighted choice of the next construction step (percent), per focus *)
Kind(n_) ==
  LET r == Pick(1..100)
      W == CASE Focus = "paint"  -> <<40, 28, 0, 0, 8, 0, 18>>
             [] Focus = "clip"   -> <<38, 14, 4, 18, 8, 0, 14>>
             [] Focus = "struct" -> <<40, 16, 5, 0, 12, 9, 14>>
             [] OTHER            -> <<36, 14, 5, 10, 10, 7, 14>>
      \* shape, g, defs, clipPath, use, svg, close  (remainder: finish)
  IN IF r <= W[1] THEN "shape"
     ELSE IF r <= W[1] + W[2] THEN "g"
     ELSE IF r <= W[1] + W[2] + W[3] THEN "defs"
     ELSE IF r <= W[1] + W[2] + W[3] + W[4] THEN "clipPath"
     ELSE IF r <= W[1] + W[2] + W[3] + W[4] + W[5] THEN "use"
     ELSE IF r <= W[1] + W[2] + W[3] + W[4] + W[5] + W[6] THEN "svg"
     ELSE IF r <= W[1] + W[2] + W[3] + W[4] + W[5] + W[6] + W[7] THEN "close"
     ELSE "finish"

CanClose == open # <<>> /\ (nodes[Len(nodes)].tag \notin Containers \/ Len(nodes) > open[Len(open)])

Grow == /\ ~done /\ Len(nodes) < MaxNodes
        /\ UNCHANGED done
        /\ LET k == Kind(Len(nodes))
           IN IF k = "g" /\ ENABLED AddGroup THEN AddGroup
              ELSE IF k = "defs" /\ ENABLED AddDefs THEN AddDefs
              ELSE IF k = "clipPath" /\ ENABLED AddClipPath THEN AddClipPath
              ELSE IF k = "use" /\ ENABLED AddUse THEN AddUse
              ELSE IF k = "svg" /\ ENABLED AddSvg THEN AddSvg
              ELSE IF k = "close" /\ CanClose THEN CloseOne
              ELSE IF k = "finish" /\ Len(nodes) >= 2 THEN FALSE
              ELSE AddShape

(* a container that was opened last and is still empty would be an empty element: allowed *)
Finish == /\ ~done /\ Len(nodes) >= 1
          /\ (Len(nodes) >= MaxNodes \/ ~ENABLED Grow)
          /\ done' = TRUE
          /\ PrintT("CASE " \o ToJson(Doc))
          /\ UNCHANGED <<nodes, open>>

Next == Grow \/ Finish
Spec == Init /\ [][Next]_vars

(* structural sanity of everything the environment emits (checked by TLC)   *)
WellFormed ==
  /\ \A i \in 1..Len(nodes) : nodes[i].d >= 1 /\ (i > 1 => nodes[i].d <= nodes[i - 1].d + 1)
  /\ \A i \in 1..Len(nodes) : (i > 1 /\ nodes[i].d = nodes[i - 1].d + 1) => nodes[i - 1].tag \in Containers
  /\ \A i, j \in 1..Len(nodes) : (i # j /\ nodes[i].id # "") => nodes[i].id # nodes[j].id
=============================================================================
