------------------------------ MODULE Pipeline ------------------------------
(***************************************************************************)
(* L2 model of SVG.topicosvg as a program over an abstract document.       *)
(* The document is the set of "residues" it still contains - kinds of       *)
(* content that are not picosvg.  Every step removes the residues it is      *)
(* responsible for and MAY create others (that is where the order of the     *)
(* steps matters); the conversion is correct when no residue is left when    *)
(* the closing check runs.  Repaired = FALSE is the step order of the pinned *)
(* tree: TLC then produces the three order defects the trace checks found    *)
(* on the real code (needless group after pruning, orphan gradient after     *)
(* pruning, leftovers of drop_unsupported).                                  *)
(***************************************************************************)
EXTENDS Naturals, Sequences, FiniteSets, TLC

CONSTANTS Repaired, Drop

Residues == {"noise", "style", "nestedsvg", "basicshape", "shorthand", "use", "structure",
             "evenodd", "splitopacity", "relative", "unrounded", "emptysubpath", "invisible",
             "needlessgroup", "orphangradient", "unsupported"}

VARIABLES pc, doc, log
vars == <<pc, doc, log>>

(* what a step removes / may create *)
Removes(s) ==
  CASE s = "discard_noise" -> {"noise"}
    [] s = "apply_style_attributes" -> {"style"}
    [] s = "resolve_nested_svgs" -> {"nestedsvg"}
    [] s = "shapes_to_paths" -> {"basicshape"}
    [] s = "expand_shorthand" -> {"shorthand"}
    [] s = "resolve_use" -> {"use"}
    [] s = "simplify" -> {"structure"}
    [] s = "drop_unsupported" -> {"unsupported"}
    [] s = "evenodd_to_nonzero_winding" -> {"evenodd"}
    [] s = "normalize_opacity" -> {"splitopacity"}
    [] s = "absolute" -> {"relative"}
    [] s = "round_floats" -> {"unrounded"}
    [] s = "remove_empty_subpaths" -> {"emptysubpath"}
    [] s = "remove_unpainted_shapes" -> {"invisible"}
    [] s = "dissolve_groups" -> {"needlessgroup"}
    [] s = "purge_orphans" -> {"orphangradient"}
    [] OTHER -> {}

(* Every entry below was either read off the code or reported by the trace binding          *)
(* (TracePipeline: a residue observed after a step that the model did not allow is drift).  *)
MayCreate(s) ==
  CASE s = "discard_noise" -> {"needlessgroup"}                         \* a group loses a child
    [] s = "apply_style_attributes" ->                                  \* style="" is opaque until applied
         {"evenodd", "splitopacity", "invisible", "structure", "unrounded", "needlessgroup"}
    [] s = "resolve_nested_svgs" -> {"structure", "needlessgroup", "shorthand",   \* g + clipPath rect
                                     \* the svg's own presentation attributes now reach its content
                                     "evenodd", "splitopacity", "invisible"}
    [] s = "expand_shorthand" -> {"unrounded"}                          \* reflected control points
    [] s = "resolve_use" ->                                             \* the copy takes the use's attributes
         {"structure", "needlessgroup", "evenodd", "splitopacity", "invisible"}
    [] s = "simplify" -> {"evenodd", "splitopacity", "unrounded", "emptysubpath", "invisible",
                          "orphangradient",     \* orphans are purged BEFORE unused shapes leave defs
                          "needlessgroup"}      \* a dissolved outer group pushes opacity 0 onto a kept inner one
    [] s = "evenodd_to_nonzero_winding" -> {"unrounded", "emptysubpath", "invisible"}
    [] s = "normalize_opacity" -> {"unrounded"}
    [] s = "round_floats" -> {"emptysubpath", "invisible"}              \* rounding collapses slivers
    [] s = "remove_empty_subpaths" -> {"invisible"}
    [] s = "remove_unpainted_shapes" -> {"needlessgroup", "orphangradient"}
    [] s = "drop_unsupported" -> {"needlessgroup", "orphangradient"}
    [] s = "dissolve_groups" -> {"unrounded", "invisible"}              \* opacity pushed down (maybe 0)
    [] OTHER -> {}

Program ==
  IF Repaired
  THEN <<"discard_noise", "apply_style_attributes", "resolve_nested_svgs", "shapes_to_paths",
         "expand_shorthand", "resolve_use", "simplify">>
       \o (IF Drop THEN <<"drop_unsupported">> ELSE <<>>)
       \o <<"evenodd_to_nonzero_winding", "normalize_opacity", "absolute", "round_floats",
            "remove_empty_subpaths", "LOOP", "purge_orphans", "check">>
  ELSE <<"discard_noise", "apply_style_attributes", "resolve_nested_svgs", "shapes_to_paths",
         "expand_shorthand", "resolve_use", "simplify", "evenodd_to_nonzero_winding",
         "normalize_opacity", "absolute", "round_floats", "remove_empty_subpaths",
         "remove_unpainted_shapes">>
       \o (IF Drop THEN <<"drop_unsupported">> ELSE <<>>) \o <<"check">>

Init == /\ pc = 1
        /\ doc \in SUBSET Residues
        /\ (~Drop => "unsupported" \notin doc)       \* without the flag unsupported content is an error
        /\ log = <<>>

Apply(s) == \E made \in SUBSET MayCreate(s) : doc' = (doc \ Removes(s)) \cup made

Step ==
  /\ pc <= Len(Program)
  /\ LET s == Program[pc]
     IN IF s = "LOOP"
        THEN \* while True: remove_unpainted ; if not dissolve: break ; round
             \/ /\ Apply("remove_unpainted_shapes") /\ "needlessgroup" \notin doc'
                /\ pc' = pc + 1 /\ log' = Append(log, "remove_unpainted_shapes")
             \/ /\ \E made1 \in SUBSET MayCreate("remove_unpainted_shapes") :
                      /\ "needlessgroup" \in (doc \ Removes("remove_unpainted_shapes")) \cup made1
                      /\ \E made2 \in SUBSET MayCreate("dissolve_groups") :
                           doc' = ((((doc \ Removes("remove_unpainted_shapes")) \cup made1)
                                    \ Removes("dissolve_groups")) \cup made2) \ Removes("round_floats")
                /\ pc' = pc /\ log' = Append(log, "dissolved_groups_and_rounded")
        ELSE IF s = "check"
        THEN pc' = pc + 1 /\ UNCHANGED doc /\ log' = Append(log, "checkpicosvg")
        ELSE Apply(s) /\ pc' = pc + 1 /\ log' = Append(log, s)

Spec == Init /\ [][Step]_vars

(* the design-level statement behind C01 / C07 / C08: the closing check sees a picosvg *)
CheckedIsPico == pc = Len(Program) + 1 => doc = {}
(* bound on the loop (it must not spin): history length *)
Bounded == Len(log) <= 40
View == <<pc, doc>>
=============================================================================
