SPECIFICATION Spec
CONSTANTS
  CloneFlushes = TRUE
  MaxLen = 2
  EmitHistories = FALSE
INVARIANT SerEqualsIdeal
INVARIANT PendImpliesPop
CHECK_DEADLOCK FALSE
