SPECIFICATION Spec
CONSTANTS
  Repaired = FALSE
  Drop = TRUE
INVARIANT CheckedIsPico
CHECK_DEADLOCK FALSE
VIEW View
