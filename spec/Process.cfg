SPECIFICATION Spec
CONSTANTS
  Procs = {1, 2, 3, 4}
  Seeds = {"0", "1", "2", "random"}
  NDocs = 12
  MaxPerProc = 12
INVARIANT MemoFunctional
CHECK_DEADLOCK FALSE
