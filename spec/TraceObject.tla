----------------------------- MODULE TraceObject -----------------------------
(***************************************************************************)
(* L3 trace spec for C15.  A trace is one operation history executed on    *)
(* the real SVG class twice: directly, and with serialise + re-parse       *)
(* between every two steps.  Per step the driver logged (non-intrusively,  *)
(* on deep copies)                                                          *)
(*   op, mode, self (returned object is the receiver), xd / xr (outcome of *)
(*   the direct / re-parse chain: "ok" or exception type), d / r (canonical *)
(*   XML hash of the current object of either chain), rb / ra (receiver     *)
(*   hash before / after), pop (bool(svg.elements) of the current object).  *)
(* Every logged step must be a PicoObject!Do step; the property clauses are  *)
(* evaluated on the logged hashes, the cache model is bound through pop.     *)
(***************************************************************************)
EXTENDS PicoObject, IOUtils

Cases == ndJsonDeserialize(IOEnv.TRACES)

VARIABLES blk, tid, l, verdict, drift
tvars == <<objs, cur, hist, blk, tid, l, verdict, drift>>

NCases == Len(Cases)
NBlk == 64

TInit == /\ Init /\ blk \in 1..NBlk /\ tid = 0 /\ l = 0 /\ verdict = "block" /\ drift = 0

Fan == /\ verdict = "block"
       /\ \E t \in 1..NCases : t % NBlk = blk - 1 /\ tid' = t
       /\ verdict' = "running" /\ l' = 1
       /\ UNCHANGED <<objs, cur, hist, blk, drift>>

Clause(s) ==
  IF s.xd # s.xr THEN "BAD:asymmetric-outcome"
  ELSE IF s.xd # "ok" THEN "stop"
  ELSE IF s.d # s.r THEN "BAD:differs-from-reparsed"
  ELSE IF s.mode = "copy" /\ s.ra # s.rb THEN "BAD:copy-changed-receiver"
  ELSE IF s.mode = "copy" /\ s.self = 1 THEN "BAD:copy-returned-receiver"
  ELSE IF s.mode = "inplace" /\ s.self = 0 THEN "BAD:inplace-did-not-return-receiver"
  ELSE "ok"

StepT ==
  /\ verdict = "running"
  /\ LET steps == Cases[tid].steps
     IN IF l > Len(steps)
        THEN /\ verdict' = "ok:history" \o (IF drift > 0 THEN ":model-drift" ELSE "")
             /\ PrintT("V " \o ToString(tid) \o " " \o verdict')
             /\ UNCHANGED <<objs, cur, hist, blk, tid, l, drift>>
        ELSE LET s == steps[l]
                 c == Clause(s)
             IN IF c = "ok"
                THEN /\ Do(s.op, s.mode)                       \* the specification's own action
                     /\ drift' = drift + (IF (IF objs'[cur'].pop THEN 1 ELSE 0) = s.pop THEN 0 ELSE 1)
                     /\ l' = l + 1
                     /\ UNCHANGED <<blk, tid, verdict>>
                ELSE /\ verdict' = (IF c = "stop" THEN "ok:history-ends-in-exception"
                                    ELSE c \o "@" \o ToString(l) \o ":" \o s.op \o ":" \o s.mode)
                     /\ PrintT("V " \o ToString(tid) \o " " \o verdict')
                     /\ UNCHANGED <<objs, cur, hist, blk, tid, l, drift>>

TNext == Fan \/ StepT
TSpec == TInit /\ [][TNext]_tvars
=============================================================================
