---------------------------- MODULE PicoGrammar ----------------------------
(***************************************************************************)
(* L1: the "picosvg" output grammar of the README, clause by clause, as a  *)
(* predicate over a projected document.  A projected document is           *)
(*   [nodes |-> Seq(Node)]  in document (pre-)order with                    *)
(*   Node == [d  |-> depth (root = 0),                                      *)
(*            k  |-> "el" | "comment" | "pi" | "text",                       *)
(*            ns |-> "svg" | "other", tag |-> local name,                    *)
(*            at |-> Seq(<<name, chars, nsprefix>>) raw attributes,             *)
(*            toks |-> Seq(<<letter, Seq(chars)>>) for path data ]            *)
(* chars = sequence of one-character strings, so that the real lexemes are  *)
(* judged (number syntax, digits after the point) and not a re-rendering.   *)
(* Every clause has a name; Violations(out, nd, allowText) is the set of    *)
(* names of violated clauses (empty = conforms).                            *)
(***************************************************************************)
EXTENDS PathGrammar, FiniteSets

N(out) == Len(out.nodes)
Els(out) == {i \in 1..N(out) : out.nodes[i].k = "el"}

RECURSIVE SubEndP(_, _, _)
SubEndP(out, i, j) == IF j + 1 <= N(out) /\ out.nodes[j + 1].d > out.nodes[i].d
                      THEN SubEndP(out, i, j + 1) ELSE j
Kids(out, i) == {j \in (i + 1)..SubEndP(out, i, i) : out.nodes[j].d = out.nodes[i].d + 1}
ElKids(out, i) == {j \in Kids(out, i) : out.nodes[j].k = "el"}
ParentOf(out, j) == CHOOSE i \in 1..N(out) : j \in Kids(out, i)

HasA(nd, name) == \E k \in 1..Len(nd.at) : nd.at[k][1] = name
ValA(nd, name) == (CHOOSE k \in 1..Len(nd.at) : nd.at[k][1] = name)
AttrChars(nd, name) == nd.at[ValA(nd, name)][2]
IsStr(chars, str) == \* chars spell one of a few known words
  CASE str = "none"    -> chars = <<"n","o","n","e">>
    [] str = "evenodd" -> chars = <<"e","v","e","n","o","d","d">>

(* a complete plain number: the SVG number grammar consumes all characters *)
IsNumber(chars) == chars # <<>> /\ Number(chars, 1, TRUE).end = Len(chars) + 1
NumVal(chars) == Number(chars, 1, TRUE).val
(* digits after the decimal point of the exact value <<neg, mant, exp>> *)
FracDigits(v) == IF v[3] < 0 THEN 0 - v[3] ELSE 0

RECURSIVE Pow10(_)
Pow10(n) == IF n <= 0 THEN 1 ELSE 10 * Pow10(n - 1)
(* 0 < v < 1 *)
StrictUnit(v) == v[1] = 0 /\ v[2] > 0 /\ v[3] < 0 /\ (0 - v[3] > 9 \/ v[2] < Pow10(0 - v[3]))

GradTags == {"linearGradient", "radialGradient"}
GradCoords == {"x1", "y1", "x2", "y2", "cx", "cy", "r", "fx", "fy", "fr"}
TextTags == {"text", "tspan", "textPath"}
(* presentation attributes that picosvg treats as inherited from the root *)
RootForbidden == {"clip-rule", "color", "display", "fill", "fill-rule", "style", "transform",
                  "stroke", "stroke-width", "stroke-linecap", "stroke-linejoin",
                  "stroke-miterlimit", "stroke-dasharray", "stroke-dashoffset", "stroke-opacity",
                  "fill-opacity", "opacity", "clip-path", "overflow"}
PathLetters == {"M", "L", "C", "Q", "A", "Z"}

(* the first element child of the root *)
FirstEl(out) == IF ElKids(out, 1) = {} THEN 0
                ELSE CHOOSE j \in ElKids(out, 1) : \A k \in ElKids(out, 1) : j <= k

InDefs(out, j) == \E i \in Els(out) : out.nodes[i].tag = "defs" /\ i < j /\ j <= SubEndP(out, i, i)
InText(out, j) == \E i \in Els(out) : out.nodes[i].tag \in TextTags /\ i <= j /\ j <= SubEndP(out, i, i)

PathOK(nd, ndigits) ==
  /\ \A t \in 1..Len(nd.toks) :
       LET c == nd.toks[t][1]  a == nd.toks[t][2]
       IN /\ c \in PathLetters
          /\ IF c = "Z" THEN a = <<>> ELSE Len(a) > 0 /\ Len(a) % Arity(c) = 0
          /\ \A k \in 1..Len(a) : IsNumber(a[k])

PathRounded(nd, ndigits) ==
  \A t \in 1..Len(nd.toks) : \A k \in 1..Len(nd.toks[t][2]) :
     ~IsNumber(nd.toks[t][2][k]) \/ NumVal(nd.toks[t][2][k])[1] = -1
        \/ FracDigits(NumVal(nd.toks[t][2][k])) <= ndigits

Violations(out, ndigits, allowText) ==
  LET nd(i) == out.nodes[i]
      body == {j \in Els(out) : j > 1 /\ ~InDefs(out, j) /\ nd(j).tag # "defs"
                                 /\ ~(allowText /\ InText(out, j))}
      defsEls == {j \in Els(out) : nd(j).tag = "defs"}
      grads == {j \in Els(out) : nd(j).tag \in GradTags}
  IN
  {"RootIsSvg" : x \in IF nd(1).k = "el" /\ nd(1).ns = "svg" /\ nd(1).tag = "svg" THEN {} ELSE {1}}
  \cup {"RootFirstChildIsOnlyDefs" : x \in
          IF Cardinality(defsEls) = 1 /\ FirstEl(out) # 0 /\ nd(FirstEl(out)).tag = "defs"
             /\ \A j \in defsEls : nd(j).d = 1 THEN {} ELSE {1}}
  \cup {"DefsOnlyIdGradients" : j \in {j \in Els(out) : InDefs(out, j) /\
          ~( (nd(j).tag \in GradTags /\ nd(j).d = 2 /\ HasA(nd(j), "id"))
             \/ (nd(j).tag = "stop" /\ nd(j).d = 3) )}}
  \cup {"GradientNoHref" : j \in {j \in grads : HasA(nd(j), "xlink:href") \/ HasA(nd(j), "href")}}
  \cup {"GradientPlainNumbers" : j \in {j \in grads :
          \E a \in GradCoords : HasA(nd(j), a) /\ ~IsNumber(AttrChars(nd(j), a))}}
  \cup {"BodyOnlyGOrPath" : j \in {j \in body : ~(nd(j).ns = "svg" /\ nd(j).tag \in {"g", "path"})}}
  \cup {"GroupHas2Children" : j \in {j \in body : nd(j).tag = "g" /\ Cardinality(ElKids(out, j)) < 2}}
  \cup {"GroupOnlyOpacityIn01" : j \in {j \in body : nd(j).tag = "g" /\
          ~( Len(nd(j).at) = 1 /\ HasA(nd(j), "opacity") /\ IsNumber(AttrChars(nd(j), "opacity"))
             /\ StrictUnit(NumVal(AttrChars(nd(j), "opacity"))) )}}
  \cup {"PathNoStroke" : j \in {j \in body : nd(j).tag = "path" /\ HasA(nd(j), "stroke")
                                              /\ ~IsStr(AttrChars(nd(j), "stroke"), "none")}}
  \cup {"PathNoTransform" : j \in {j \in body : nd(j).tag = "path" /\ HasA(nd(j), "transform")}}
  \cup {"PathNoClipPath" : j \in {j \in body : nd(j).tag = "path" /\ HasA(nd(j), "clip-path")}}
  \cup {"PathNoEvenodd" : j \in {j \in body : nd(j).tag = "path" /\ HasA(nd(j), "fill-rule")
                                               /\ IsStr(AttrChars(nd(j), "fill-rule"), "evenodd")}}
  \cup {"PathCmdsAbsoluteMLCQAZ" : j \in {j \in body : nd(j).tag = "path" /\ ~PathOK(nd(j), ndigits)}}
  \cup {"NumbersRounded" : j \in {j \in body : nd(j).tag = "path" /\ ~PathRounded(nd(j), ndigits)}}
  \cup {"NoCommentOrPI" : j \in {j \in 1..N(out) : nd(j).k \in {"comment", "pi"}}}
  \cup {"NoForeignNamespace" : j \in {j \in Els(out) : nd(j).ns # "svg"}}
  \cup {"NoXlinkOrForeignAttr" : j \in {j \in Els(out) :
          \E k \in 1..Len(nd(j).at) : nd(j).at[k][3] # ""}}
  \cup {"RootNoInheritableAttr" : x \in {a \in RootForbidden : HasA(nd(1), a)}}
  \cup {"TextSubtreeOnlyTextTags" : j \in {j \in Els(out) : allowText /\ InText(out, j)
                                                 /\ ~(nd(j).ns = "svg" /\ nd(j).tag \in TextTags)}}
  \cup {"TextOnlyIfAllowed" : j \in {j \in 1..N(out) : nd(j).k = "text"
                                       /\ ~(allowText /\ InText(out, ParentOf(out, j)))}}

(* ---- C08: references ---- *)
RefViolations(out) ==
  LET nd(i) == out.nodes[i]
      ids == [i \in Els(out) |-> IF HasA(nd(i), "id") THEN AttrChars(nd(i), "id") ELSE <<>>]
      grads == {j \in Els(out) : nd(j).tag \in GradTags /\ InDefs(out, j)}
      urls == {nd(j).fillref : j \in {j \in Els(out) : nd(j).fillref # <<>>}}
  IN {"UniqueIds" : p \in {p \in Els(out) \X Els(out) : p[1] < p[2] /\ ids[p[1]] # <<>> /\ ids[p[1]] = ids[p[2]]}}
     \cup {"EveryUrlResolvesToDefsGradient" : u \in {u \in urls : ~\E g \in grads : ids[g] = u}}
     \cup {"EveryDefsGradientIsReferenced" : g \in {g \in grads : ids[g] \notin urls}}
=============================================================================
