--------------------------- MODULE TraceParse ---------------------------
(***************************************************************************)
(* L3 trace spec for C10.  Each trace is one recorded call of the real     *)
(* parser:  [s |-> <<chars>>, o |-> outcome(exploded=False),               *)
(*           x |-> outcome(exploded=True)]  with                            *)
(* outcome = [k |-> "ok", c |-> cmds] | [k |-> "ValueError"] |              *)
(*           [k |-> "exc", t |-> type].                                      *)
(* The verdict is computed by running the reference grammar on the same    *)
(* characters.                                                              *)
(***************************************************************************)
EXTENDS PathGrammar, Json, IOUtils, TLC

Cases == ndJsonDeserialize(IOEnv.TRACES)

VARIABLES blk, tid, verdict

JudgeOne(ref, o) ==
  IF o.k = "exc" THEN "BAD:exception"
  ELSE IF ~ref.ok THEN "ok:nonconforming"
  ELSE IF o.k = "ValueError" THEN "ok:rejected"
  ELSE IF o.c = ref.cmds THEN "ok:equal"
  ELSE "BAD:misparse"

Judge(c) ==
  LET p  == Parse(c.s)
      v1 == JudgeOne(p, c.o)
      v2 == JudgeOne(IF p.ok THEN [ok |-> TRUE, cmds |-> Exploded(p.cmds)] ELSE p, c.x)
      Bad(v) == v \in {"BAD:exception", "BAD:misparse"}
  IN IF Bad(v1) THEN v1 ELSE IF Bad(v2) THEN v2 \o ":exploded"
     ELSE IF v1 # v2 THEN "BAD:inconsistent-outcome" ELSE v1

(* print/parse round trip: n = structure of the original exploded commands,  *)
(* d = printed characters, r = the implementation's own re-parse, eq = per   *)
(* argument "numerically equal" flags (Python ==), v = exact decimals of the *)
(* original arguments (neg = -1: outside TLC's integers, value not judged).  *)
RECURSIVE AllOnes(_, _)
AllOnes(rows, i) == IF i > Len(rows) THEN TRUE
                    ELSE (\A k \in 1..Len(rows[i]) : rows[i][k] = 1) /\ AllOnes(rows, i + 1)

ValuesAgree(cmds, v) ==
  /\ Len(cmds) = Len(v)
  /\ \A i \in 1..Len(cmds) :
        /\ Len(cmds[i][2]) = Len(v[i])
        /\ \A k \in 1..Len(v[i]) : v[i][k][1] = -1 \/ cmds[i][2][k][1] = -1 \/ v[i][k] = cmds[i][2][k]

JudgePrint(c) ==
  LET p == Parse(c.d)
  IN IF c.r.k = "exc" THEN "BAD:exception"
     ELSE IF c.r.k # "ok" THEN "BAD:roundtrip-rejected"
     ELSE IF c.r.n # c.n THEN "BAD:roundtrip-structure"
     ELSE IF Len(c.eq) # Len(c.n) \/ ~AllOnes(c.eq, 1) THEN "BAD:roundtrip-value"
     ELSE IF ~p.ok THEN "drift:printed-nonconforming"
     ELSE IF ~ValuesAgree(Exploded(p.cmds), c.v) THEN "BAD:print-value"
     ELSE "ok:roundtrip"

NCases == Len(Cases)
NBlk == 64
Init == blk \in 1..NBlk /\ tid = 0 /\ verdict = "block"
Fan == /\ verdict = "block"
       /\ \E t \in 1..NCases : t % NBlk = blk - 1 /\ tid' = t
       /\ verdict' = "pending" /\ UNCHANGED blk
Do == /\ verdict = "pending"
      /\ verdict' = (IF Cases[tid].kind = "print" THEN JudgePrint(Cases[tid]) ELSE Judge(Cases[tid]))
      /\ PrintT("V " \o ToString(tid) \o " " \o verdict')
      /\ UNCHANGED <<tid, blk>>
Next == Fan \/ Do
Spec == Init /\ [][Next]_<<blk, tid, verdict>>
==========================================================================
