------------------------------ MODULE SvgSem ------------------------------
(***************************************************************************)
(* L1 reference semantics: the SVG 1.1 rendering model restricted to the   *)
(* feature set picosvg supports, executable by TLC on abstract documents   *)
(* (ADoc, see Build.tla).                                                   *)
(*                                                                          *)
(*   Layers(doc)   ordered paint layers: what is painted, in document      *)
(*                 order, with which paint/alpha, inside which opacity      *)
(*                 groups, where (region = shape under its CTM, its fill    *)
(*                 rule, intersected with every applicable clip region)     *)
(*   StackAt(..)   the normalised nested paint stack at a point             *)
(*                                                                          *)
(* Points are integers in 1/8 user units.  All arithmetic is exact integer  *)
(* arithmetic (Affine.tla) except the ellipse test, which is evaluated on   *)
(* coordinates reduced to about 1/512 of a unit; sample points are only     *)
(* judged when their 8 neighbours at distance 1/8 agree (Robust), so that   *)
(* reduction cannot change a verdict.                                       *)
(***************************************************************************)
EXTENDS Affine, PathSem, FiniteSets

U == 8                      \* sample-point units per user unit

(* ---------------------------------------------------------------- tree *)
Nodes(doc) == doc.nodes
N(doc) == Len(doc.nodes)

RECURSIVE SubEnd(_, _, _)
(* index of the last node of the subtree of i (i itself if leaf) *)
SubEnd(doc, i, j) == IF j + 1 <= N(doc) /\ doc.nodes[j + 1].d > doc.nodes[i].d
                     THEN SubEnd(doc, i, j + 1) ELSE j

Children(doc, i) ==
  LET lo == IF i = 0 THEN 1 ELSE i + 1
      hi == IF i = 0 THEN N(doc) ELSE SubEnd(doc, i, i)
      dd == IF i = 0 THEN 1 ELSE doc.nodes[i].d + 1
  IN SelectSeq([k \in 1..(IF hi >= lo THEN hi - lo + 1 ELSE 0) |-> lo + k - 1],
               LAMBDA j : doc.nodes[j].d = dd)

ById(doc, id) == IF \E i \in 1..N(doc) : doc.nodes[i].id = id
                 THEN CHOOSE i \in 1..N(doc) : doc.nodes[i].id = id ELSE 0

(* --------------------------------------------------------- attributes *)
Matches(at, name, via) == SelectSeq(at, LAMBDA t : t[1] = name /\ t[3] = via)
Has(at, name) == \E k \in 1..Len(at) : at[k][1] = name
(* style declarations win over presentation attributes (SVG 1.1 6.4) *)
Get(at, name) == LET s == Matches(at, name, 1)  a == Matches(at, name, 0)
                 IN IF s # <<>> THEN s[Len(s)][2] ELSE a[Len(a)][2]

DefaultCtx == [fill |-> "black", fo |-> 0, rule |-> "nonzero", crule |-> "nonzero",
               stroke |-> "none", so |-> 0, sw |-> 1, cap |-> "butt", join |-> "miter",
               ml |-> 4, dash |-> <<>>, doff |-> 0]

Inherit(ctx, at) ==
  [fill   |-> IF Has(at, "fill") THEN Get(at, "fill") ELSE ctx.fill,
   fo     |-> IF Has(at, "fill-opacity") THEN Get(at, "fill-opacity") ELSE ctx.fo,
   rule   |-> IF Has(at, "fill-rule") THEN Get(at, "fill-rule") ELSE ctx.rule,
   crule  |-> IF Has(at, "clip-rule") THEN Get(at, "clip-rule") ELSE ctx.crule,
   stroke |-> IF Has(at, "stroke") THEN Get(at, "stroke") ELSE ctx.stroke,
   so     |-> IF Has(at, "stroke-opacity") THEN Get(at, "stroke-opacity") ELSE ctx.so,
   sw     |-> IF Has(at, "stroke-width") THEN Get(at, "stroke-width") ELSE ctx.sw,
   cap    |-> IF Has(at, "stroke-linecap") THEN Get(at, "stroke-linecap") ELSE ctx.cap,
   join   |-> IF Has(at, "stroke-linejoin") THEN Get(at, "stroke-linejoin") ELSE ctx.join,
   ml     |-> IF Has(at, "stroke-miterlimit") THEN Get(at, "stroke-miterlimit") ELSE ctx.ml,
   dash   |-> IF Has(at, "stroke-dasharray") THEN Get(at, "stroke-dasharray") ELSE ctx.dash,
   doff   |-> IF Has(at, "stroke-dashoffset") THEN Get(at, "stroke-dashoffset") ELSE ctx.doff]

Hidden(at) == Has(at, "display") /\ Get(at, "display") = "none"
(* exponent e (alpha = 2^-e), -1 = zero; the environment also writes out-of-range values   *)
(* (-2: "1.5", -4: "2" clamp to 1; -3: "-0.25" clamps to 0)                                  *)
ClampE(e) == IF e \in {-2, -4} THEN 0 ELSE IF e = -3 THEN -1 ELSE e
OpacityE(at) == IF Has(at, "opacity") THEN ClampE(Get(at, "opacity")) ELSE 0
TfOf(at) == IF Has(at, "transform") THEN ListMatrix(Get(at, "transform"), 1) ELSE Id

ShapeTags == {"rect", "circle", "ellipse", "polygon", "polyline", "path", "line"}

(* ------------------------------------------------------------ geometry *)
(* q = <<nx, ny, den>> is the rational point (nx/den, ny/den), den > 0    *)

(* winding number contribution of polygon pts = <<x1,y1,x2,y2,...>> (closed) *)
RECURSIVE WindPoly(_, _, _, _)
WindPoly(pts, q, i, acc) ==
  LET n == Len(pts) \div 2
  IN IF i > n THEN acc
     ELSE LET ax == pts[2 * i - 1] * q[3]   ay == pts[2 * i] * q[3]
              j  == IF i = n THEN 1 ELSE i + 1
              bx == pts[2 * j - 1] * q[3]   by == pts[2 * j] * q[3]
              \* only the sign of the cross product matters; divide the edge by den
              ex == pts[2 * j - 1] - pts[2 * i - 1]
              ey == pts[2 * j] - pts[2 * i]
              cr == ex * (q[2] - ay) - ey * (q[1] - ax)
              up == ay <= q[2] /\ q[2] < by
              dn == by <= q[2] /\ q[2] < ay
          IN WindPoly(pts, q, i + 1,
                      acc + (IF up /\ cr > 0 THEN 1 ELSE IF dn /\ cr < 0 THEN -1 ELSE 0))

(* contours of a polygonal path: one point list per subpath *)
RECURSIVE SegPts(_, _, _)
SegPts(segs, i, acc) == IF i > Len(segs) THEN acc
                        ELSE SegPts(segs, i + 1, acc \o SegEnd(segs[i]))
Contours(cmds) == LET subs == Denote([k \in 1..Len(cmds) |-> <<cmds[k][1], Tail(cmds[k])>>])
                  IN [k \in 1..Len(subs) |-> SegPts(subs[k].segs, 1, subs[k].s)]

RECURSIVE WindAll(_, _, _, _)
WindAll(cs, q, i, acc) == IF i > Len(cs) THEN acc
                          ELSE WindAll(cs, q, i + 1, acc + WindPoly(cs[i], q, 1, 0))

ByRule(w, rule) == IF rule = "evenodd" THEN w % 2 = 1 ELSE w # 0

(* ellipse interior on reduced precision *)
EllipseIn(q, cx, cy, rx, ry) ==
  LET u == q[1] - cx * q[3]
      v == q[2] - cy * q[3]
  IN IF rx <= 0 \/ ry <= 0 \/ Abs(u) > rx * q[3] \/ Abs(v) > ry * q[3] THEN FALSE
     ELSE LET f  == q[3] \div 512 + 1
              u2 == u \div f   v2 == v \div f   d2 == q[3] \div f
          IN u2 * u2 * ry * ry + v2 * v2 * rx * rx < rx * rx * ry * ry * d2 * d2

Min2(a, b) == IF a < b THEN a ELSE b

RectIn(q, g) ==
  LET x == g[1]  y == g[2]  w == g[3]  h == g[4]
      rx0 == IF g[5] < 0 THEN (IF g[6] < 0 THEN 0 ELSE g[6]) ELSE g[5]
      ry0 == IF g[6] < 0 THEN rx0 ELSE g[6]
      \* clamp to half the side, on doubled coordinates to stay integral
      rx2 == Min2(2 * rx0, w)   ry2 == Min2(2 * ry0, h)
      d == q[3]
      inBox == w > 0 /\ h > 0 /\ x * d <= q[1] /\ q[1] <= (x + w) * d /\ y * d <= q[2] /\ q[2] <= (y + h) * d
      q2 == <<2 * q[1], 2 * q[2], d>>      \* the same point on doubled coordinates
      corner(cx2, cy2) == EllipseIn(q2, cx2, cy2, rx2, ry2)
      left  == 2 * q[1] < (2 * x + rx2) * d
      right == 2 * q[1] > (2 * (x + w) - rx2) * d
      top   == 2 * q[2] < (2 * y + ry2) * d
      bot   == 2 * q[2] > (2 * (y + h) - ry2) * d
  IN IF ~inBox THEN FALSE
     ELSE IF rx2 = 0 \/ ry2 = 0 THEN TRUE
     ELSE IF left /\ top THEN corner(2 * x + rx2, 2 * y + ry2)
     ELSE IF right /\ top THEN corner(2 * (x + w) - rx2, 2 * y + ry2)
     ELSE IF left /\ bot THEN corner(2 * x + rx2, 2 * (y + h) - ry2)
     ELSE IF right /\ bot THEN corner(2 * (x + w) - rx2, 2 * (y + h) - ry2)
     ELSE TRUE

InShape(tag, g, q, rule) ==
  CASE tag = "rect"    -> RectIn(q, g)
    [] tag = "circle"  -> EllipseIn(q, g[1], g[2], g[3], g[3])
    [] tag = "ellipse" -> EllipseIn(q, g[1], g[2], g[3], g[4])
    [] tag \in {"polygon", "polyline"} -> ByRule(WindPoly(g, q, 1, 0), rule)
    [] tag = "path"    -> ByRule(WindAll(Contours(g), q, 1, 0), rule)
    [] OTHER -> FALSE

(* a placed shape: [tag, g, m, rule];  p = <<px, py>> in 1/U units *)
InPlaced(s, p) == IF Det(s.m) = 0 THEN FALSE
                  ELSE InShape(s.tag, s.g, PreImage(s.m, p[1], p[2], U), s.rule)

(* a clip region is a union of placed shapes; a clip chain is a conjunction of unions *)
InUnion(us, p) == \E k \in 1..Len(us) : InPlaced(us[k], p)
InClips(cl, p) == \A k \in 1..Len(cl) : InUnion(cl[k], p)

(* --------------------------------------------------------------- layers *)
(* Layer == [shape |-> placed shape, clips |-> clip chain, paint, e (alpha = 2^-e),       *)
(*           grp |-> Seq(<<group id, e>>)]                                                  *)

(* the children of clipPath cp as placed shapes in the referencing user space mref *)
RECURSIVE ClipKids(_, _, _, _, _, _)
ClipKids(doc, kids, k, mcp, ctx, acc) ==
  IF k > Len(kids) THEN acc
  ELSE LET nd == doc.nodes[kids[k]]
           c2 == Inherit(ctx, nd.at)
       IN IF Hidden(nd.at) THEN ClipKids(doc, kids, k + 1, mcp, ctx, acc)
          ELSE IF nd.tag \in ShapeTags
          THEN ClipKids(doc, kids, k + 1, mcp, ctx,
                        Append(acc, [tag |-> nd.tag, g |-> nd.g, m |-> Mul(mcp, TfOf(nd.at)),
                                     rule |-> c2.crule]))
          ELSE IF nd.tag = "use" /\ ById(doc, nd.ref) # 0
                  /\ doc.nodes[ById(doc, nd.ref)].tag \in ShapeTags
          THEN LET t  == doc.nodes[ById(doc, nd.ref)]
                   c3 == Inherit(c2, t.at)
                   mu == Mul(Mul(mcp, TfOf(nd.at)), Mul(Translate(nd.g[1], nd.g[2]), TfOf(t.at)))
               IN ClipKids(doc, kids, k + 1, mcp, ctx,
                           Append(acc, [tag |-> t.tag, g |-> t.g, m |-> mu, rule |-> c3.crule]))
          ELSE ClipKids(doc, kids, k + 1, mcp, ctx, acc)

(* inherited properties of node i from its own ancestors (used for clipPath children) *)
RECURSIVE AncCtx(_, _)
AncCtx(doc, i) ==
  IF i = 0 THEN Inherit(DefaultCtx, doc.root)
  ELSE LET par == IF \E j \in 1..(i - 1) : doc.nodes[j].d = doc.nodes[i].d - 1
                  THEN CHOOSE j \in 1..(i - 1) : doc.nodes[j].d = doc.nodes[i].d - 1
                                                 /\ \A k \in (j + 1)..(i - 1) : doc.nodes[k].d >= doc.nodes[i].d
                  ELSE 0
       IN Inherit(AncCtx(doc, par), doc.nodes[i].at)

(* clip chain contributed by an element with attributes at, whose user space is m *)
RECURSIVE ClipOf(_, _, _, _)
ClipOf(doc, at, m, fuel) ==
  IF ~Has(at, "clip-path") \/ fuel = 0 THEN <<>>
  ELSE LET ci == ById(doc, Get(at, "clip-path"))
       IN IF ci = 0 THEN <<>>
          ELSE LET cp  == doc.nodes[ci]
                   mcp == Mul(m, TfOf(cp.at))
                   us  == ClipKids(doc, Children(doc, ci), 1, mcp, AncCtx(doc, ci), <<>>)
               IN << us >> \o ClipOf(doc, cp.at, mcp, fuel - 1)

GroupE(C, i, e) == IF e = 0 THEN C.grp ELSE Append(C.grp, <<i, e>>)

RECURSIVE Render(_, _, _, _)
RECURSIVE RenderSeq(_, _, _, _, _, _)

RenderSeq(doc, idxs, k, C, fuel, acc) ==
  IF k > Len(idxs) THEN acc
  ELSE RenderSeq(doc, idxs, k + 1, C, fuel, acc \o Render(doc, idxs[k], C, fuel))

(* C == [m, ctx, grp, clips, inst]; inst counts instantiations so that group ids stay unique *)
Render(doc, i, C, fuel) ==
  LET nd == doc.nodes[i]
      at == nd.at
      e  == OpacityE(at)
  IN IF fuel = 0 \/ Hidden(at) \/ e = -1 THEN <<>>
     ELSE
     CASE nd.tag = "g" ->
            LET m2 == Mul(C.m, TfOf(at))
                C2 == [C EXCEPT !.m = m2, !.ctx = Inherit(C.ctx, at),
                                !.grp = GroupE(C, <<i, C.inst>>, e),
                                !.clips = C.clips \o ClipOf(doc, at, m2, 4)]
            IN RenderSeq(doc, Children(doc, i), 1, C2, fuel, <<>>)
       [] nd.tag \in ShapeTags ->
            LET c2 == Inherit(C.ctx, at)
                m2 == Mul(C.m, TfOf(at))
                cl == C.clips \o ClipOf(doc, at, m2, 4)
                fillL == IF c2.fill = "none" \/ c2.fo = -1 THEN <<>>
                         ELSE << [shape |-> [tag |-> nd.tag, g |-> nd.g, m |-> m2, rule |-> c2.rule],
                                  clips |-> cl, paint |-> c2.fill, e |-> c2.fo + e, grp |-> C.grp,
                                  kind |-> "fill", ctx |-> c2, ni |-> <<i, C.inst>>, eo |-> e,
                                  \* gradient fill: index of the referenced paint server (0 = plain colour)
                                  gi |-> IF Has(at, "fillref") /\ c2.fill = "url(#" \o Get(at, "fillref") \o ")"
                                         THEN ById(doc, Get(at, "fillref")) ELSE 0] >>
                \* the stroke is painted above the fill (SVG 1.1 11.4); its region is three-valued and
                \* only interpreted by StrokeSem / TraceStroke
                strokeL == IF c2.stroke = "none" \/ c2.so = -1 \/ c2.sw = 0 THEN <<>>
                           ELSE << [shape |-> [tag |-> nd.tag, g |-> nd.g, m |-> m2, rule |-> "nonzero"],
                                    clips |-> cl, paint |-> c2.stroke, e |-> c2.so + e, grp |-> C.grp,
                                    kind |-> "stroke", ctx |-> c2, ni |-> <<i, C.inst>>, eo |-> e, gi |-> 0] >>
            IN fillL \o strokeL
       [] nd.tag = "use" ->
            LET ti == ById(doc, nd.ref)
                mu == Mul(C.m, TfOf(at))
                C2 == [C EXCEPT !.m = Mul(mu, Translate(nd.g[1], nd.g[2])),
                                !.ctx = Inherit(C.ctx, at),
                                !.grp = GroupE(C, <<i, C.inst>>, e),
                                !.clips = C.clips \o ClipOf(doc, at, mu, 4),
                                !.inst = C.inst * 31 + i]
            IN IF ti = 0 THEN <<>> ELSE Render(doc, ti, C2, fuel - 1)
       [] nd.tag = "svg" ->
            LET x == nd.g[1]  y == nd.g[2]
                \* width/height default to 100% of the enclosing viewport (in its user units)
                w == IF nd.g[3] < 0 THEN C.vp[1] ELSE nd.g[3]
                h == IF nd.g[4] < 0 THEN C.vp[2] ELSE nd.g[4]
                vb == nd.g[5]  par == nd.g[6]  ovf == nd.g[7]
                align == IF par = <<>> THEN "xMidYMid" ELSE par[1]
                slice == Len(par) = 2 /\ par[2] = "slice"
                mt == Mul(C.m, TfOf(at))
                \* without a viewBox the user space of the content starts at the viewport's corner;
                \* with one, the viewBox is mapped onto the viewport (identity when they coincide)
                vx == IF vb = <<>> THEN Translate(x, y)
                      ELSE ViewportXf(vb, <<x, y, w, h>>, align, slice)
                clipU == IF ovf = "visible" THEN <<>>
                         ELSE << << [tag |-> "rect", g |-> <<x, y, w, h, -1, -1>>, m |-> C.m,
                                     rule |-> "nonzero"] >> >>
                C2 == [C EXCEPT !.m = Mul(mt, vx), !.ctx = Inherit(C.ctx, at),
                                !.grp = GroupE(C, <<i, C.inst>>, e),
                                !.clips = C.clips \o clipU,
                                !.vp = IF vb = <<>> THEN <<w, h>> ELSE <<vb[3], vb[4]>>]
            IN RenderSeq(doc, Children(doc, i), 1, C2, fuel, <<>>)
       [] OTHER -> <<>>

(* the root svg element is a container too: its opacity composites the whole document as a group, *)
(* display="none" on it hides everything                                                           *)
Layers(doc) ==
  LET e0 == OpacityE(doc.root)
  IN IF Hidden(doc.root) \/ e0 = -1 THEN <<>>
     ELSE RenderSeq(doc, Children(doc, 0), 1,
            [m |-> Id, ctx |-> Inherit(DefaultCtx, doc.root),
             grp |-> IF e0 = 0 THEN <<>> ELSE << << <<0, 0>>, e0>> >>, clips |-> <<>>, inst |-> 0,
             vp |-> <<doc.view[3], doc.view[4]>>],
            6, <<>>)

(* ---------------------------------------------------------------- stacks *)
(* flat layers with group paths -> nested, normalised stack                 *)
(* item == <<"p", paint, e>> | <<"g", e, items>>                              *)
RECURSIVE Nest(_, _)
(* ls: Seq([grp, paint, e]) all sharing the group prefix of length dep *)
Nest(ls, dep) ==
  IF ls = <<>> THEN <<>>
  ELSE LET l1 == ls[1]
       IN IF Len(l1.grp) <= dep
          THEN << <<"p", l1.paint, l1.e>> >> \o Nest(Tail(ls), dep)
          ELSE LET gid == l1.grp[dep + 1]
                   \* maximal run of layers that continue the same group
                   run == CHOOSE n \in 1..Len(ls) :
                            /\ \A k \in 1..n : Len(ls[k].grp) > dep /\ ls[k].grp[dep + 1] = gid
                            /\ (n = Len(ls) \/ ~(Len(ls[n + 1].grp) > dep /\ ls[n + 1].grp[dep + 1] = gid))
                   inner == Nest(SubSeq(ls, 1, run), dep + 1)
                   rest  == Nest(SubSeq(ls, run + 1, Len(ls)), dep)
               IN (IF inner = <<>> THEN <<>>
                   ELSE IF Len(inner) = 1
                   THEN (IF inner[1][1] = "p"
                         THEN << <<"p", inner[1][2], inner[1][3] + gid[2]>> >>
                         ELSE << <<"g", inner[1][2] + gid[2], inner[1][3]>> >>)
                   ELSE << <<"g", gid[2], inner>> >>) \o rest

(* the layers that cover p, reduced to what compositing depends on *)
Covering(layers, InFn(_, _), p) ==
  SelectSeq(layers, LAMBDA l : InFn(l, p))

Strip(ls) == [k \in 1..Len(ls) |-> [grp |-> ls[k].grp, paint |-> ls[k].paint, e |-> ls[k].e]]

StackAt(layers, InFn(_, _), p) == Nest(Strip(Covering(layers, InFn, p)), 0)

SrcIn(l, p) == InPlaced(l.shape, p) /\ InClips(l.clips, p)
SrcStack(layers, p) == StackAt(layers, SrcIn, p)
(* which layers cover p: a point is outside the epsilon band of every involved edge when its neighbours *)
(* are covered by exactly the same layers (equal STACKS are not enough: where the edge of one black     *)
(* layer meets the edge of another the stacks agree on both sides, yet the point sits on two edges)      *)
SrcCover(layers, p) == {k \in 1..Len(layers) : SrcIn(layers[k], p)}

(* output side: layer == [polys |-> Seq(point list in 1/64 units), rule, paint, e, grp]  *)
(* bb = <<xmin, ymin, xmax, ymax>> of the layer and pb[k] of its k-th contour (pure accelerators: *)
(* a contour contributes no winding to a point outside its bounding box)                          *)
RECURSIVE WindAllBB(_, _, _, _, _)
WindAllBB(cs, pb, q, i, acc) ==
  IF i > Len(cs) THEN acc
  ELSE WindAllBB(cs, pb, q, i + 1,
                 IF pb[i][1] <= q[1] /\ q[1] <= pb[i][3] /\ pb[i][2] <= q[2] /\ q[2] <= pb[i][4]
                 THEN acc + WindPoly(cs[i], q, 1, 0) ELSE acc)
OutIn(l, p) == /\ l.bb[1] <= 8 * p[1] /\ 8 * p[1] <= l.bb[3]
               /\ l.bb[2] <= 8 * p[2] /\ 8 * p[2] <= l.bb[4]
               /\ ByRule(WindAllBB(l.polys, l.pb, <<8 * p[1], 8 * p[2], 1>>, 1, 0), l.rule)
OutStack(layers, p) == StackAt(layers, OutIn, p)
OutCover(layers, p) == {k \in 1..Len(layers) : OutIn(layers[k], p)}

Nbrs(p) == { <<p[1] + dx, p[2] + dy>> : dx \in {-1, 0, 1}, dy \in {-1, 0, 1} }
(* all grid points within r/8 units (Chebyshev) of p: the epsilon band scales with the viewBox *)
NbrsR(p, r) == { <<p[1] + dx, p[2] + dy>> : dx \in (0 - r)..r, dy \in (0 - r)..r }
(* 0.4% of the viewBox extent in 1/8 units, rounded up, at least 1 *)
BandR(view) == LET w == IF view[3] > view[4] THEN view[3] ELSE view[4]
               IN IF (w * 32 + 999) \div 1000 < 1 THEN 1 ELSE (w * 32 + 999) \div 1000
=============================================================================
