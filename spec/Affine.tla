------------------------------ MODULE Affine ------------------------------
(***************************************************************************)
(* Exact 2D affine algebra over the rationals with one common denominator. *)
(*   <<a, b, c, d, e, f, k>>  (k > 0)  denotes the map                      *)
(*       x' = (a x + c y + e) / k ,  y' = (b x + d y + f) / k               *)
(* i.e. the SVG matrix(a/k b/k c/k d/k e/k f/k).  Mul(M, N) is "N first,    *)
(* then M" (matrix product M.N), the meaning of nesting and of a transform  *)
(* list "M N" in SVG 1.1 section 7.5/7.6.                                   *)
(***************************************************************************)
EXTENDS Naturals, Integers, Sequences

Abs(x) == IF x < 0 THEN -x ELSE x

RECURSIVE GcdN(_, _)
GcdN(a, b) == IF b = 0 THEN a ELSE GcdN(b, a % b)
Gcd(a, b) == GcdN(Abs(a), Abs(b))

Gcd7(m) == Gcd(Gcd(Gcd(m[1], m[2]), Gcd(m[3], m[4])), Gcd(Gcd(m[5], m[6]), m[7]))

Reduce(m) == LET g == Gcd7(m)
             IN IF g <= 1 THEN m
                ELSE <<m[1] \div g, m[2] \div g, m[3] \div g, m[4] \div g, m[5] \div g, m[6] \div g, m[7] \div g>>

Id == <<1, 0, 0, 1, 0, 0, 1>>

Mul(m, n) ==
  Reduce(<< m[1] * n[1] + m[3] * n[2],
            m[2] * n[1] + m[4] * n[2],
            m[1] * n[3] + m[3] * n[4],
            m[2] * n[3] + m[4] * n[4],
            m[1] * n[5] + m[3] * n[6] + m[5] * n[7],
            m[2] * n[5] + m[4] * n[6] + m[6] * n[7],
            m[7] * n[7] >>)

Det(m) == m[1] * m[4] - m[2] * m[3]           \* numerator; the determinant is Det/k^2

Translate(tx, ty) == <<1, 0, 0, 1, tx, ty, 1>>
ScaleR(sxn, syn, den) == Reduce(<<sxn, 0, 0, syn, 0, 0, den>>)
(* rotations by multiples of 90 degrees about (cx, cy): exact *)
Rot90k(deg, cx, cy) ==
  LET r == CASE deg % 360 = 0   -> <<1, 0, 0, 1, 0, 0, 1>>
             [] deg % 360 = 90  -> <<0, 1, -1, 0, 0, 0, 1>>
             [] deg % 360 = 180 -> <<-1, 0, 0, -1, 0, 0, 1>>
             [] deg % 360 = 270 -> <<0, -1, 1, 0, 0, 0, 1>>
  IN Mul(Translate(cx, cy), Mul(r, Translate(-cx, -cy)))
SkewX45 == <<1, 0, 1, 1, 0, 0, 1>>
SkewY45 == <<1, 1, 0, 1, 0, 0, 1>>

(* one operation of the symbolic transform language used by Build.tla       *)
OpMatrix(op) ==
  CASE op[1] = "translate" -> Translate(op[2], op[3])
    [] op[1] = "scale"     -> ScaleR(op[2], op[3], op[4])
    [] op[1] = "rotate"    -> Rot90k(op[2], op[3], op[4])
    [] op[1] = "skewX"     -> SkewX45
    [] op[1] = "skewY"     -> SkewY45
    [] op[1] = "matrix"    -> <<op[2], op[3], op[4], op[5], op[6], op[7], 1>>
    [] op[1] = "matrixq"   -> Reduce(<<op[2], op[3], op[4], op[5], op[6], op[7], op[8]>>)

(* a transform list "op1 op2 ..." is the product op1 . op2 . ... *)
RECURSIVE ListMatrix(_, _)
ListMatrix(ops, i) == IF i > Len(ops) THEN Id ELSE Mul(OpMatrix(ops[i]), ListMatrix(ops, i + 1))

(* Pre-image of the point (px, py)/u under m, as <<numx, numy, den>> with den > 0  *)
(* (only for Det # 0).  x = px/u = (a qx + c qy + e)/k  etc.                      *)
PreImage(m, px, py, u) ==
  LET det == Det(m)
      rx  == m[7] * px - u * m[5]
      ry  == m[7] * py - u * m[6]
      nx  == m[4] * rx - m[3] * ry
      ny  == m[1] * ry - m[2] * rx
      s   == IF det < 0 THEN -1 ELSE 1
      g   == Gcd(Gcd(nx, ny), u * det)
      gg  == IF g = 0 THEN 1 ELSE g
  IN << (s * nx) \div gg, (s * ny) \div gg, (s * u * det) \div gg >>

(* viewport transform (SVG 1.1 7.8): maps viewBox vb = <<x,y,w,h>> into the         *)
(* viewport vp = <<x,y,w,h>>; align in {"none","xMinYMin",...}, slice \in BOOLEAN     *)
ViewportXf(vb, vp, align, slice) ==
  LET \* scale factors as rationals sx = vp.w/vb.w, sy = vp.h/vb.h
      uniform == align # "none"
      \* compare sx ? sy  <=>  vp.w*vb.h ? vp.h*vb.w
      sxSmaller == vp[3] * vb[4] <= vp[4] * vb[3]
      useX == IF slice THEN ~sxSmaller ELSE sxSmaller
      sn == IF useX THEN vp[3] ELSE vp[4]       \* uniform scale = sn/sd
      sd == IF useX THEN vb[3] ELSE vb[4]
      \* with common denominator K = 2 * vb.w * vb.h (non-uniform) or 2*sd (uniform)
      K  == IF uniform THEN 2 * sd ELSE 2 * vb[3] * vb[4]
      SX == IF uniform THEN 2 * sn ELSE 2 * vp[3] * vb[4]        \* sx * K
      SY == IF uniform THEN 2 * sn ELSE 2 * vp[4] * vb[3]        \* sy * K
      \* extra space (vp.w - vb.w*sx) * K  and (vp.h - vb.h*sy) * K
      EX == vp[3] * K - vb[3] * SX
      EY == vp[4] * K - vb[4] * SY
      xs == CASE uniform /\ align \in {"xMidYMin", "xMidYMid", "xMidYMax"} -> EX \div 2
              [] uniform /\ align \in {"xMaxYMin", "xMaxYMid", "xMaxYMax"} -> EX
              [] OTHER -> 0
      ys == CASE uniform /\ align \in {"xMinYMid", "xMidYMid", "xMaxYMid"} -> EY \div 2
              [] uniform /\ align \in {"xMinYMax", "xMidYMax", "xMaxYMax"} -> EY
              [] OTHER -> 0
      TX == vp[1] * K - vb[1] * SX + xs
      TY == vp[2] * K - vb[2] * SY + ys
  IN Reduce(<<SX, 0, 0, SY, TX, TY, K>>)
=============================================================================
