--------------------------- MODULE PathGrammar ---------------------------
(***************************************************************************)
(* L1 reference semantics: the SVG 1.1 path-data grammar (section 8.3.9,   *)
(* BNF) as an executable recogniser/transducer.  A string is a sequence of *)
(* one-character strings.  Parse(s) is either [ok |-> FALSE] (s does not    *)
(* conform) or [ok |-> TRUE, cmds |-> <<  <<letter, <<value...>> >> ... >>] *)
(* with one entry per command letter (the "unexploded" form).  A numeric    *)
(* value is the exact decimal <<neg, mant, exp>> == (-1)^neg * mant * 10^exp *)
(* with mant not divisible by 10 (0 is <<0,0,0>>), so equality of values is  *)
(* equality of tuples and no float ever enters the specification.           *)
(*                                                                          *)
(* Where SVG 1.1 and SVG 2 differ (negative arc radii, the mandatory        *)
(* separator between the arc rotation and the first flag) the stricter 1.1  *)
(* reading is used: "conforming" is the antecedent of property C10, so the  *)
(* narrower reading can only make the check more permissive, never alarm.   *)
(***************************************************************************)
EXTENDS Naturals, Integers, Sequences

Digit == {"0","1","2","3","4","5","6","7","8","9"}
Wsp   == {" ", "\t", "\n", "\r"}
CmdLetters == {"M","m","Z","z","L","l","H","h","V","v","C","c","S","s","Q","q","T","t","A","a"}

Arity(c) == CASE c \in {"M","m","L","l","T","t"} -> 2
              [] c \in {"H","h","V","v"}         -> 1
              [] c \in {"C","c"}                 -> 6
              [] c \in {"S","s","Q","q"}         -> 4
              [] c \in {"A","a"}                 -> 7
              [] c \in {"Z","z"}                 -> 0

At(s, i) == IF i >= 1 /\ i <= Len(s) THEN s[i] ELSE "$"

DigitVal(c) == CASE c = "0" -> 0 [] c = "1" -> 1 [] c = "2" -> 2 [] c = "3" -> 3
                 [] c = "4" -> 4 [] c = "5" -> 5 [] c = "6" -> 6 [] c = "7" -> 7
                 [] c = "8" -> 8 [] c = "9" -> 9

RECURSIVE SkipDigits(_, _)
SkipDigits(s, i) == IF At(s, i) \in Digit THEN SkipDigits(s, i + 1) ELSE i

RECURSIVE SkipWsp(_, _)
SkipWsp(s, i) == IF At(s, i) \in Wsp THEN SkipWsp(s, i + 1) ELSE i

RECURSIVE DigitsToInt(_, _, _, _)
DigitsToInt(s, i, j, acc) ==
  \* saturating: more than 9 digits do not fit TLC's 32-bit integers; -1 = "too big"
  IF i >= j THEN acc
  ELSE IF acc < 0 \/ acc > 99999999 THEN -1
  ELSE DigitsToInt(s, i + 1, j, acc * 10 + DigitVal(s[i]))

RECURSIVE StripZeros(_, _)
StripZeros(m, e) == IF m # 0 /\ m % 10 = 0 THEN StripZeros(m \div 10, e + 1) ELSE <<m, e>>

TooBig == <<-1, 0, 0>>      \* a value the specification cannot represent; never judged
Norm(neg, m, e) == IF m < 0 THEN TooBig ELSE IF m = 0 THEN <<0, 0, 0>>
                   ELSE LET z == StripZeros(m, e) IN <<IF neg THEN 1 ELSE 0, z[1], z[2]>>

(* A number starting at i.  Result [end |-> j, val |-> v]; end = 0 when no  *)
(* number starts at i.  Maximal munch: the exponent is taken only when it    *)
(* is complete ("1e" followed by a non-digit can never conform anyway,       *)
(* since "e" starts nothing).                                                *)
Number(s, i, signed) ==
  LET hasSign == signed /\ At(s, i) \in {"+", "-"}
      neg  == hasSign /\ At(s, i) = "-"
      i0   == IF hasSign THEN i + 1 ELSE i
      i1   == SkipDigits(s, i0)
      dot  == At(s, i1) = "."
      i2   == IF dot THEN SkipDigits(s, i1 + 1) ELSE i1
      nfrac == IF dot THEN i2 - (i1 + 1) ELSE 0
      mantOK == (i1 > i0) \/ (nfrac > 0)
      esign == At(s, i2 + 1) \in {"+", "-"}
      e0   == IF esign THEN i2 + 2 ELSE i2 + 1
      e1   == SkipDigits(s, e0)
      hasExp == At(s, i2) \in {"e", "E"} /\ e1 > e0
      eabs == IF hasExp THEN DigitsToInt(s, e0, e1, 0) ELSE 0
      expo == IF At(s, i2 + 1) = "-" THEN 0 - eabs ELSE eabs
      mant == DigitsToInt(s, IF dot THEN i1 + 1 ELSE i1, i2, DigitsToInt(s, i0, i1, 0))
  IN IF ~mantOK THEN [end |-> 0, val |-> <<0, 0, 0>>]
     ELSE [end |-> IF hasExp THEN e1 ELSE i2,
           val |-> IF eabs < 0 THEN TooBig ELSE Norm(neg, mant, expo - nfrac)]

(* comma-wsp? : index after an optional comma-wsp starting at i             *)
CommaWsp(s, i) == LET j == SkipWsp(s, i)
                  IN IF At(s, j) = "," THEN SkipWsp(s, j + 1) ELSE j

Flag(s, i) == IF At(s, i) \in {"0", "1"}
              THEN [end |-> i + 1, val |-> Norm(FALSE, DigitVal(s[i]), 0)]
              ELSE [end |-> 0, val |-> <<0, 0, 0>>]

(* kind of the k-th argument (1-based) of one argument group of command c   *)
ArgKind(c, k) == IF c \in {"A", "a"}
                 THEN (CASE k \in {1, 2} -> "nonneg" [] k \in {4, 5} -> "flag" [] OTHER -> "num")
                 ELSE "num"

Arg(s, i, kind) == CASE kind = "flag"   -> Flag(s, i)
                     [] kind = "nonneg" -> Number(s, i, FALSE)
                     [] OTHER           -> Number(s, i, TRUE)

(* One argument group of c starting at i (first argument must start at i).  *)
(* Result [end, vals]; end = 0 on failure.                                   *)
RECURSIVE Group(_, _, _, _, _)
Group(s, i, c, k, acc) ==
  IF k > Arity(c) THEN [end |-> i, vals |-> acc]
  ELSE LET a == Arg(s, i, ArgKind(c, k))
       IN IF a.end = 0 THEN [end |-> 0, vals |-> acc]
          ELSE IF k = Arity(c) THEN [end |-> a.end, vals |-> Append(acc, a.val)]
          ELSE LET j == CommaWsp(s, a.end)
                   \* SVG 1.1: rotation and large-arc-flag need a separator
                   sepOK == ~(c \in {"A", "a"} /\ k = 3) \/ j > a.end
               IN IF ~sepOK THEN [end |-> 0, vals |-> acc]
                  ELSE Group(s, j, c, k + 1, Append(acc, a.val))

(* argument-sequence: group (comma-wsp? group)*                              *)
RECURSIVE ArgSeq(_, _, _, _)
ArgSeq(s, i, c, acc) ==
  LET g == Group(s, i, c, 1, acc)
  IN IF g.end = 0 THEN g
     ELSE LET j  == SkipWsp(s, g.end)
              comma == At(s, j) = ","
              k  == IF comma THEN SkipWsp(s, j + 1) ELSE j
              more == Arg(s, k, ArgKind(c, 1)).end # 0
          IN IF more THEN ArgSeq(s, k, c, g.vals)
             ELSE IF comma THEN [end |-> 0, vals |-> g.vals]   \* dangling comma
             ELSE g

RECURSIVE Commands(_, _, _)
Commands(s, i, acc) ==
  LET j == SkipWsp(s, i)
  IN IF j > Len(s) THEN [ok |-> TRUE, cmds |-> acc]
     ELSE LET c == s[j]
          IN IF c \notin CmdLetters THEN [ok |-> FALSE]
             ELSE IF acc = <<>> /\ c \notin {"M", "m"} THEN [ok |-> FALSE]
             ELSE IF Arity(c) = 0 THEN Commands(s, j + 1, Append(acc, <<c, <<>> >>))
             ELSE LET a == ArgSeq(s, SkipWsp(s, j + 1), c, <<>>)
                  IN IF a.end = 0 THEN [ok |-> FALSE]
                     ELSE Commands(s, a.end, Append(acc, <<c, a.vals>>))

Parse(s) == Commands(s, 1, <<>>)

(* The "exploded" form: one command per argument group; implicit repeats of  *)
(* a moveto are linetos of the same case.                                    *)
RECURSIVE ExplodeOne(_, _, _, _)
ExplodeOne(c, vals, k, acc) ==
  IF Arity(c) = 0 THEN Append(acc, <<c, <<>> >>)
  ELSE IF k > Len(vals) THEN acc
  ELSE LET cc == IF k > 1 /\ c = "M" THEN "L" ELSE IF k > 1 /\ c = "m" THEN "l" ELSE c
       IN ExplodeOne(c, vals, k + Arity(c),
                     Append(acc, <<cc, SubSeq(vals, k, k + Arity(c) - 1)>>))

RECURSIVE Explode(_, _, _)
Explode(cmds, n, acc) ==
  IF n > Len(cmds) THEN acc
  ELSE Explode(cmds, n + 1, ExplodeOne(cmds[n][1], cmds[n][2], 1, acc))

Exploded(cmds) == Explode(cmds, 1, <<>>)
==========================================================================
