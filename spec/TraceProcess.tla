---------------------------- MODULE TraceProcess ----------------------------
(***************************************************************************)
(* L3 trace spec for C16.  The trace is the merged event log of all        *)
(* processes of one run:  [ev |-> "Spawn", p, seed] and                      *)
(* [ev |-> "Convert", p, d, key, out].  Every event must be a step of       *)
(* Process!Next with the logged fields bound; the first event that is not   *)
(* (i.e. a Convert whose output disagrees with an earlier observation of    *)
(* the same key) is reported.                                                *)
(***************************************************************************)
EXTENDS Naturals, Sequences, FiniteSets, TLC, Json, IOUtils

Trace == ndJsonDeserialize(IOEnv.TRACES)

CONSTANTS Procs, Seeds, NDocs, MaxPerProc
VARIABLES seed, hist, memo, done, l, verdict

P == INSTANCE Process

Init == P!Init /\ l = 1 /\ verdict = "running"

Step ==
  /\ verdict = "running" /\ l <= Len(Trace)
  /\ LET e == Trace[l]
     IN \/ /\ e.ev = "Spawn" /\ P!Spawn(e.p, e.seed)
           /\ l' = l + 1 /\ UNCHANGED verdict
        \/ /\ e.ev = "Convert" /\ P!Convert(e.p, e.d, e.key, e.out)
           /\ l' = l + 1 /\ UNCHANGED verdict
        \/ /\ e.ev = "Convert" /\ ~ENABLED P!Convert(e.p, e.d, e.key, e.out)
           /\ verdict' = "BAD:output-depends-on-more-than-input@" \o ToString(l)
           /\ PrintT("V 1 " \o verdict')
           /\ UNCHANGED <<seed, hist, memo, done, l>>

Finish == /\ verdict = "running" /\ l = Len(Trace) + 1
          /\ verdict' = "ok:" \o ToString(Len(memo)) \o "-keys"
          /\ PrintT("V 1 " \o verdict')
          /\ UNCHANGED <<seed, hist, memo, done, l>>

Next == Step \/ Finish
Spec == Init /\ [][Next]_<<seed, hist, memo, done, l, verdict>>
=============================================================================
