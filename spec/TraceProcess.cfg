SPECIFICATION Spec
CONSTANTS
  Procs = {1}
  Seeds = {"0"}
  NDocs = 1000000
  MaxPerProc = 1000000
CHECK_DEADLOCK FALSE
