#!/bin/bash
# setup_cmd: offline tool check + SANY on every specification module.
set -e
cd "$(dirname "$0")"
command -v java >/dev/null
test -f /opt/veriftools/tla/tla2tools.jar
/venv/bin/python -c "import lxml, pathops"
mkdir -p evidence replays .work
fail=0
for f in spec/*.tla; do
  if ! (cd spec && java -cp /opt/veriftools/tla/tla2tools.jar:/opt/veriftools/tla/CommunityModules-deps.jar tla2sany.SANY "$(basename "$f")" >/tmp/sany.$$ 2>&1); then
    echo "SANY failed on $f"; tail -20 /tmp/sany.$$; fail=1
  fi
done
rm -f /tmp/sany.$$
# binding demonstration: faithful traces accepted, corrupted ones rejected
if [ $fail = 0 ]; then tools/selftest.py || fail=1; fi
rmdir .work 2>/dev/null || true
[ $fail = 0 ] && echo "setup ok"
exit $fail
